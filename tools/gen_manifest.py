#!/usr/bin/env python3
"""Regenerate MANIFEST.json from tools/manifest_data.py (single source of truth)."""
import json, os, sys
sys.path.insert(0, os.path.dirname(os.path.abspath(__file__)))
import manifest_data as M
root = os.path.dirname(os.path.dirname(os.path.abspath(__file__)))
checks = []
for pid, c in sorted(M.CHECKS.items()):
    checks.append({
        "property_id": pid,
        "quick_cmd": "./check %s --tier quick" % pid,
        "thorough_cmd": "./check %s --tier thorough" % pid,
        "evidence_file": "/verif/evidence/%s.json" % pid,
        "replay_cmd_template": "./check %s --replay {path}" % pid,
        "engine": c["engine"],
        "level_claimed": {"category": "model_checking", "text": c["text"], "design_ref": c["design_ref"]},
        "level_note": c["note"],
        "technique": c["technique"],
    })
na = [{"property_id": k, "reason": v} for k, v in sorted(M.NOT_APPLICABLE.items())]
ids = [json.loads(l)["id"] for l in open(os.path.join(root, "properties.jsonl"))]
missing = [i for i in ids if i not in M.CHECKS and i not in M.NOT_APPLICABLE]
assert not missing, missing
man = {
    "version": 1,
    "setup_cmd": M.SETUP_CMD,
    "hooks": M.HOOKS,
    "engines": M.ENGINES,
    "checks": checks,
    "notes": M.NOTES,
    "not_applicable": na,
}
with open(os.path.join(root, "MANIFEST.json"), "w") as f:
    json.dump(man, f, indent=1); f.write("\n")
print("MANIFEST.json: %d checks, %d not_applicable" % (len(checks), len(na)))
