#!/bin/bash
# stop every running check / kani / cbmc process (development aid)
pkill -f 'pyvenv/bin/python3 [.]/check' 2>/dev/null
pkill -f 'tools/measure[.]py' 2>/dev/null
pkill -x cargo-kani 2>/dev/null
pkill -x kani-driver 2>/dev/null
pkill -x cbmc 2>/dev/null
pkill -x cvc5 2>/dev/null
sleep 1
echo "cbmc left: $(pgrep -xc cbmc)"
