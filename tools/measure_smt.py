#!/opt/veriftools/pyvenv/bin/python3
"""tools/measure_smt.py [--features a,b] kernel... : run Engine S kernels (development aid)."""
import sys, os, json
sys.path.insert(0, os.path.dirname(os.path.dirname(os.path.abspath(__file__))))
from vlib import smtrun
args = sys.argv[1:]
feats = ()
if args and args[0] == "--features":
    feats = tuple(args[1].split(",")); args = args[2:]
if __name__ == "__main__":
    out = smtrun.run_obligations("DEV", "quick", {"features": feats, "kernels": args, "workers": 4})
    for o in out["obligations"]:
        print(o["id"], o["status"], "queries", o["queries"], "solver_s", o["solver_s"], "validated", o.get("validated"), "witness", o.get("witness_ok"), o.get("model_text", ""), o.get("native_output", ""), "replayed", o.get("replayed"))
    print(out["errors"])
