#!/usr/bin/env python3
"""tools/confirm_seed.py <agent dir> <seed id>: independently confirm a seeded defect.

Fresh scratch worktree of /repo; demo passes on the unchanged tree; with the patch the workspace
builds, the pinned test suite passes and the demo fails. Keeps patch.diff, demo, meta.json
under /verif/seeded/<seed id>/ and removes the scratch worktree."""
import json, os, re, shutil, subprocess, sys, time
src, sid = sys.argv[1], sys.argv[2]
meta = json.load(open(os.path.join(src, "meta.json")))
cmd = meta["demo_cmd"]
crate = re.search(r"-p (\S+)", cmd).group(1)
feats = re.search(r"--features[= ](\S+)", cmd)
feats = feats.group(1) if feats else ""
wt = "/tmp/mut/verify-" + sid
subprocess.run(["git", "-C", "/repo", "worktree", "remove", "--force", wt], capture_output=True)
subprocess.check_call(["git", "-C", "/repo", "worktree", "add", "--detach", wt, "HEAD", "-q"])
env = dict(os.environ, CARGO_TARGET_DIR=wt + "/target", CARGO_NET_OFFLINE="true")
def run(c, **kw):
    p = subprocess.run(c, cwd=wt, env=env, capture_output=True, text=True, **kw)
    return p.returncode, (p.stdout + p.stderr)
shutil.copy(os.path.join(src, "seeded_demo.rs"), os.path.join(wt, crate, "tests", "seeded_demo.rs"))
demo = ["cargo", "test", "-p", crate, "--test", "seeded_demo", "--offline"] + (["--features", feats] if feats else [])
res = {}
rc, out = run(demo); res["demo_on_unchanged"] = "pass" if rc == 0 else "FAIL"
rc, out = run(["git", "apply", os.path.join(src, "patch.diff")]); res["patch_applies"] = rc == 0
rc, out = run(["cargo", "build", "--workspace", "--offline"]); res["builds"] = rc == 0
os.rename(os.path.join(wt, crate, "tests", "seeded_demo.rs"), wt + "/seeded_demo.rs.keep")
rc, out = run(["cargo", "test", "--workspace", "--no-fail-fast", "--offline"]); res["suite_with_patch"] = "pass" if rc == 0 else "FAIL"
if rc != 0: print(out[-3000:])
os.rename(wt + "/seeded_demo.rs.keep", os.path.join(wt, crate, "tests", "seeded_demo.rs"))
rc, out = run(demo); res["demo_with_patch"] = "fail" if rc != 0 else "PASSES (not a demonstration)"
ok = res["demo_on_unchanged"] == "pass" and res["patch_applies"] and res["builds"] and res["suite_with_patch"] == "pass" and res["demo_with_patch"] == "fail"
print(sid, json.dumps(res), "CONFIRMED" if ok else "REJECTED")
if ok:
    dst = os.path.join("/verif/seeded", sid)
    os.makedirs(dst, exist_ok=True)
    shutil.copy(os.path.join(src, "patch.diff"), dst)
    shutil.copy(os.path.join(src, "seeded_demo.rs"), dst)
    meta["confirmed"] = res
    meta["confirmed_by"] = "tools/confirm_seed.py in a fresh worktree of /repo HEAD: " + " ; ".join([" ".join(demo), "cargo build --workspace --offline", "cargo test --workspace --no-fail-fast --offline"])
    meta["demo_cmd"] = "copy seeded_demo.rs to %s/tests/ and run: %s" % (crate, " ".join(demo))
    meta["seed_id"] = sid
    json.dump(meta, open(os.path.join(dst, "meta.json"), "w"), indent=1)
subprocess.run(["git", "-C", "/repo", "worktree", "remove", "--force", wt], capture_output=True)
shutil.rmtree(wt, ignore_errors=True)
