#!/bin/bash
# Run every confirmed seed against the check(s) expected to see it; results in .work/seed_matrix.log
cd /verif
out=.work/seed_matrix.log
for pair in "$@"; do
  sid=${pair%%:*}; prop=${pair##*:}
  t0=$(date +%s)
  tools/run_seed.sh $sid $prop > .work/seed_${sid}_${prop}.log 2>&1
  rc=$?
  t1=$(date +%s)
  echo "$sid $prop exit=$rc wall=$((t1-t0))s $(grep -c '^VIOLATION' .work/seed_${sid}_${prop}.log) violations; $(grep -m1 'unit=' .work/seed_${sid}_${prop}.log | cut -c1-160)" >> $out
done
