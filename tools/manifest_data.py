SETUP_CMD = "./setup.sh"
HOOKS = {
    "guard": "--cfg alexhuszagh_rust_lexical_verif",
    "enable": "none needed so far: the harness crate /verif/kani reaches lexical's internals through its pub (doc-hidden) modules; no source hooks are committed in /repo",
    "baseline_off_cmd": "cd /repo && cargo test --workspace --no-fail-fast --offline",
    "source_commits": [],
    "add_only": True,
}
ENGINES = [
    {"name": "K", "path": "/verif/kani", "kind_free_text": "Kani 0.68 / CBMC 6.11 bounded model checking of proof harnesses compiled against /repo (path dependencies), run by /verif/vlib/kani.py",
     "serves_properties": []},
    {"name": "S", "path": "/verif/smt", "kind_free_text": "MIR -> SMT-LIB2 symbolic execution of loop-free integer kernels dumped from /repo with the nightly toolchain, decided by cvc5 (--solve-bv-as-int) / z3",
     "serves_properties": []},
]
NOTES = ("All checks are bounded symbolic checks of the real code: see DESIGN.md for bounds and what lies outside them. "
         "Exit codes: 0 held within the bounds, 1 violation (replayed natively first), 2 inconclusive (timeout, vacuous harness, non-reproducing model).")

PENDING = "check not built yet in this round (planned in DESIGN.md); not claimed until its harnesses exist and pass"
CHECKS = {
    "C04": {
        "engine": "K",
        "technique": "bounded model checking (Kani/CBMC, SAT) of the real integer parsers on symbolic byte strings, differential against a reference scan",
        "text": "Within the stated length/shape bounds every byte string is covered by the SAT verdict: value, error kind and index of parse/parse_partial equal a left-to-right reference for all 12 integer types; overflow-frontier windows cover every string within 10^6 of each type's limits; SWAR digit kernels are decided over all 2^32 / 2^64 words.",
        "design_ref": "DESIGN.md section 3, C04",
        "note": "Trusted: Kani's MIR->goto translation, CBMC, CaDiCaL, the reference scan in kani/src/refs.rs. Outside the bound: arbitrary-byte strings longer than the harness length; radices other than those listed in the evidence.",
    },
}
NOT_APPLICABLE = {k: PENDING for k in ["C01","C02","C03","C05","C06","C08","C09","C10","C11","C12","C13","C14","C15","C16","C17","C18","C19"]}
NOT_APPLICABLE["C07"] = ("generic-radix float writer generates digits with native floating-point multiply/divide in data-dependent loops of up to ~1100 iterations; "
                         "bit-precise symbolic FP inside such loops is beyond CBMC and the MIR->SMT encoder has no trustworthy float path (DESIGN.md, C07)")
