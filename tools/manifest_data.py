SETUP_CMD = "./setup.sh"
HOOKS = {
    "guard": "--cfg alexhuszagh_rust_lexical_verif",
    "enable": "RUSTFLAGS='--cfg alexhuszagh_rust_lexical_verif' for every cargo-kani build of /verif/kani (set by vlib/kani.py); the one hook is "
              "lexical_util::format::verif_format_error (runtime access to format validation). Engine S (MIR dumps) builds without the guard.",
    "baseline_off_cmd": "cd /repo && cargo test --workspace --no-fail-fast --offline",
    "source_commits": ["904ddd4"],
    "add_only": True,
}
ENGINES = [
    {"name": "K", "path": "/verif/kani",
     "kind_free_text": "Kani 0.68 / CBMC 6.11 bounded model checking (SAT) of proof harnesses compiled against /repo through path dependencies; run by /verif/vlib/kani.py",
     "serves_properties": ["C01", "C03", "C04", "C05", "C08", "C09", "C10", "C11", "C12", "C13", "C14", "C15", "C16", "C17", "C18", "C19"]},
    {"name": "S", "path": "/verif/smt",
     "kind_free_text": "MIR -> SMT-LIB2 symbolic execution of integer kernels (MIR dumped from /repo with the nightly toolchain on every run), decided by cvc5 (--solve-bv-as-int / bit-blasting) and z3; "
                       "translation validated against the real functions on concrete inputs; models replayed through a native driver",
     "serves_properties": ["C01", "C02", "C03", "C05", "C09", "C10", "C19"]},
]
NOTES = ("All checks are bounded symbolic checks of the real code: see DESIGN.md for bounds and what lies outside them. "
         "Exit codes: 0 held within the bounds, 1 violation (replayed natively first), 2 inconclusive (timeout, vacuous harness, non-reproducing model). "
         "Six genuine defects found by these checks were repaired in /repo with `fix:` commits (status fixed in known_findings.json); three further genuine defects of "
         "float buffer_size_const (C09) are recorded as open findings: the C09 check prints KNOWN-FINDING lines for them and exits 0.")

K = "bounded model checking with Kani/CBMC (SAT) of the real code on symbolic inputs"
S = "symbolic execution of rustc MIR into SMT-LIB (cvc5 integer encoding / bit-blasting, z3), exact integer oracles"
TRUST = "Trusted: rustc, Kani's MIR->goto translation, CBMC+CaDiCaL; for Engine S the MIR interpreter in smt/mirexec.py (validated on concrete inputs against the real function every run), cvc5/z3; the reference models / oracles named in the evidence."

CHECKS = {
    "C01": dict(engine="K+S", technique=S + "; " + K,
                text="Correct rounding is decided seam by seam: text->(mantissa,exponent) for all byte strings up to a length; the exact fast path admits only exactly representable operands (all inputs); "
                     "Eisel-Lemire compute_float equals the nearest-even float of w*10^q for every 64-bit w on table rows 0..27 and for <=12-significant-bit w on the other rows (exact integer oracle); bit packing (all inputs); slow-path digit cap >= exact halfway-point digit count (every radix). "
                     "Bounded: rows/leading-zero counts are sampled in the quick tier and swept in the thorough tier.",
                design_ref="DESIGN.md C01", note=TRUST + " Outside: full-width mantissas on inexact rows, slow path, Bellerophon, IEEE fast-path multiply itself."),
    "C02": dict(engine="S", technique=S,
                text="Dragonbox compute_nearest_normal/shorter are executed symbolically per binade with the cache row as compiled; for every mantissa in the stated cubes the output round-trips, is shortest, is closest and has no trailing zero (exact rational oracle). "
                     "Found two genuine non-shortest defects (fixed).",
                design_ref="DESIGN.md C02", note=TRUST + " Cube bound: low 8 mantissa bits free per f32 binade (3 bits for f64, thorough tier); trailing-zero removal enters as a separately checked contract."),
    "C03": dict(engine="S+K", technique=S + "; " + K,
                text="Every u8/u16/u32 value through the decimal jeaiii kernels (full width, Engine S) and every u8/i8/u16/i16 value through the public API in decimal, every u8 value in every radix 2..36 and the compact writer (Kani); cubes around powers of ten and limits for wider types.",
                design_ref="DESIGN.md C03", note=TRUST + " Outside: 64/128-bit values outside the cubes, non-decimal radices for wide types."),
    "C04": dict(engine="K", technique=K + ", differential against a left-to-right reference scan",
                text="For every byte string up to the stated length (all 256 byte values) value, error kind and error index of parse/parse_partial equal the reference for 12 integer types; overflow frontier for narrow types; radix sample incl. 36 with both letter cases; SWAR kernels over all words.",
                design_ref="DESIGN.md C04", note=TRUST + " Outside: longer inputs; wide-type overflow windows are thorough-tier only."),
    "C05": dict(engine="K+S", technique=K + ", shift-based nearest-even oracle; " + S + " for the slow-path digit cap",
                text="binary::binary for power-of-two radices and mixed exponent bases: all 64-bit mantissas x exponents reaching zero/subnormal/normal/infinite results equal the nearest-even float. Found and fixed a dropped round-up at shift 64. "
                     "The digit cap of the big-integer slow path (f32/f64_max_digits) is at least the exact maximum digit count of a halfway point for every radix (symbolic radix).",
                design_ref="DESIGN.md C05", note=TRUST + " Outside: generic radices (Bellerophon/big-integer), slow_binary digit loops except the short end-to-end harness."),
    "C08": dict(engine="K", technique=K,
                text="Integers: parse(write(v)) == v and the partial parser consumes everything, for all 8-bit values (16-bit thorough) in decimal, radix 2/3/7/16 and sign-flag formats, cubes for wider types.",
                design_ref="DESIGN.md C08", note=TRUST + " Outside: float round trips (reduced to C14 + C12/C10 + C01/C02), 128-bit integers."),
    "C09": dict(engine="K+S", technique=K + "; " + S,
                text="Integer writers with a buffer of exactly the documented size: no panic, length within bound, every unchecked access in bounds (Kani pointer checks; Engine S in-bounds obligations at full width for u8..u32). "
                     "Float formatting layer with exactly buffer_size_const bytes for options in C14's ranges and in three extreme-option regions, where three genuine under-sizing defects are reported as open known findings.",
                design_ref="DESIGN.md C09", note=TRUST + " Outside: short-buffer behaviour, float options in the hundreds (same code paths as the three regions)."),
    "C10": dict(engine="K+S", technique=K + " (automatic panic/overflow/pointer checks); " + S,
                text="No panic, no out-of-bounds access, indices within the input for every byte string up to the bound (integers with full numerics, floats with the numeric back end stubbed), dev profile; "
                     "Eisel-Lemire compute_float panic-freedom and table-index safety per row for every w (boundary rows always, all rows thorough).",
                design_ref="DESIGN.md C10", note=TRUST + " Outside: longer inputs, slow-path loops, format-feature iterators beyond C13's harnesses."),
    "C11": dict(engine="K", technique=K + ", relational harness",
                text="complete Ok(v) <=> partial Ok((v,len)) and re-parsing the consumed prefix gives the same value, for every byte string up to the bound (integers and floats). Found and fixed the lone-sign defect of the integer partial parser.",
                design_ref="DESIGN.md C11", note=TRUST + " Outside: separator/suffix formats, custom punctuation, longer inputs."),
    "C12": dict(engine="K", technique=K + ", differential against a flag-parameterised reference recogniser",
                text="STANDARD float/integer grammar with error kind and index for arbitrary bytes; each single syntax flag on every run (interacting pairs in the thorough tier) for strings over the number alphabet: accept/reject, count and digit decomposition.",
                design_ref="DESIGN.md C12", note=TRUST + " Outside: unlisted flag combinations, prebuilt language formats, float base prefix/suffix."),
    "C13": dict(engine="K", technique=K + ", metamorphic harness",
                text="For uniform internal/leading/trailing/consecutive separator combinations (all 14 for integers, 4 (quick) / 13 (thorough) for floats): accepted with separators => accepted without with the same value; separators only in enabled positions; enabled positions never cause rejection; separator-free inputs treated identically. Found and fixed two genuine defects (ILC trailing separator at end of input, ITC leading separator after a sign).",
                design_ref="DESIGN.md C13", note=TRUST + " Outside: mixed per-component formats, inputs longer than 4-5 bytes (19+ digit paths, 8-digit fast path), special_digit_separator."),
    "C14": dict(engine="K", technique=K + ", semantic oracle on the decoded output",
                text="Decimal formatting layer through the public API with Dragonbox stubbed to a symbolic decimal and symbolic valid options: decoded value equals the decimal rounded to max digits (half-even/truncate), min digits, notation by break points, trim_floats, punctuation.",
                design_ref="DESIGN.md C14", note=TRUST + " Outside: mantissas above the bound, larger option values, compact/radix writers."),
    "C15": dict(engine="K", technique=K,
                text="Parse: special strings accepted exactly when they match, numeric input never NaN, sign of infinity (arbitrary bytes up to the bound). Write: every NaN/inf/zero bit pattern, custom strings, disabled strings panic.",
                design_ref="DESIGN.md C15", note=TRUST + " Outside: option strings longer than 4, no_special/case-sensitive formats beyond C12's flag harnesses."),
    "C16": dict(engine="K", technique=K + ", common reference across build configurations",
                text="The STANDARD-format harness families (integer parse/write, float grammar) are decided under compact, power-of-two, radix, format and combinations; each equals the same reference, hence each other, within the bounds.",
                design_ref="DESIGN.md C16", note=TRUST + " Outside: float values/output bytes across configurations (C01/C02)."),
    "C17": dict(engine="K", technique=K,
                text="lexical::to_string/parse equal lexical_core for all 8/16-bit integer values, short byte strings and special floats; every emitted byte is ASCII.",
                design_ref="DESIGN.md C17", note=TRUST + " Outside: to_string_with_options sizing for floats, wide types."),
    "C18": dict(engine="K", technique=K + " over a fully symbolic packed format",
                text="format validity equals the documented predicate for all 2^128 packed formats under each feature set; build_strict panics exactly on invalid formats; rebuild round-trips; options punctuation validity; getters reflect setters.",
                design_ref="DESIGN.md C18", note=TRUST + " One add-only hook exposes format_error_impl at run time."),
    "C19": dict(engine="K+S", technique=K + "; " + S + " (relational)",
                text="lossy on/off: same acceptance, counts and errors for arbitrary bytes up to the bound; compute_float(q,w,lossy) equals the exact result unless that is the error marker, per row for every 64-bit w.",
                design_ref="DESIGN.md C19", note=TRUST + " Outside: one-ULP bound when the exact algorithm needs the slow path; Bellerophon."),
}
NOT_APPLICABLE = {
    "C06": "power-of-two radix float writer: the monolithic harness exhausts memory (18 GB) and the decomposed harnesses (alignment arithmetic, layout per binade) were not built in the time available; no claim is made rather than switching technique",
    "C07": "generic-radix float writer generates digits with native floating-point multiply/divide in data-dependent loops of up to ~1100 iterations; bit-precise symbolic FP inside such loops is beyond CBMC and the MIR->SMT encoder has no trustworthy float path (DESIGN.md, C07)",
}
# properties whose quick check has not yet passed end-to-end on the unchanged tree are listed here and excluded from CHECKS
PENDING = {}
for k, why in PENDING.items():
    CHECKS.pop(k, None)
    NOT_APPLICABLE[k] = why
