#!/bin/bash
# tools/run_seed.sh <seed id> <property> [tier]: run a check against a seeded change in a scratch
# worktree (VERIF_REPO), leaving /repo untouched. Development aid; the official protocol
# (git -C /repo apply; ./check; git -C /repo checkout -- .) gives the same result.
set -u
sid=$1; prop=$2; tier=${3:-quick}
wt=/tmp/seedrun/$sid
git -C /repo worktree remove --force $wt >/dev/null 2>&1
rm -rf $wt; mkdir -p /tmp/seedrun
git -C /repo worktree add --detach $wt HEAD -q || exit 3
cp /repo/Cargo.lock $wt/Cargo.lock 2>/dev/null; git -C $wt apply /verif/seeded/$sid/patch.diff || { echo "patch does not apply"; exit 3; }
cd /verif && VERIF_REPO=$wt ./check $prop --tier $tier
rc=$?
echo "SEED $sid property $prop tier $tier: exit=$rc"
git -C /repo worktree remove --force $wt >/dev/null 2>&1
tag=$(echo $wt | sed 's/[^A-Za-z0-9]\+/_/g; s/^_//; s/_$//')
find /verif/.work -maxdepth 1 -name "*$tag*" -exec rm -rf {} + 2>/dev/null
exit $rc
