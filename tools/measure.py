#!/usr/bin/env python3
"""tools/measure.py FS TIMEOUT JOBS [--stub] harness... : time harnesses (development aid)."""
import sys, os
sys.path.insert(0, os.path.dirname(os.path.dirname(os.path.abspath(__file__))))
from vlib import kani as K
fs, timeout, jobs = sys.argv[1], int(sys.argv[2]), int(sys.argv[3])
rest = sys.argv[4:]
stub = False
if rest and rest[0] == "--stub":
    stub = True; rest = rest[1:]
tag = "measure-%s-%d" % (fs, os.getpid())
res, info = K.run_group(fs, rest, tag, timeout_s=timeout, jobs=jobs, mem_gb=float(os.environ.get("MEM_GB", "12")), stubbing=stub)
if info.get("compile_error"):
    print("COMPILE ERROR", info.get("errors")); print(open(info["log"]).read()[-3000:])
for h, r in res.items():
    print("%-40s %-8s wall=%7.1f solver=%7.1f checks=%d cov=%d/%d failed=%s unwind=%s %s" % (h, r.status, r.wall_s, r.solver_s, r.n_checks, len(r.covers_sat), len(r.covers_sat)+len(r.covers_unsat), [f[1] for f in r.failed][:3], [f[2] for f in r.unwind_failed][:2], r.note))
    if r.covers_unsat: print("    UNSAT covers:", r.covers_unsat)
print("total wall %.1f" % info["wall_s"])
