//! Float writing, formatting layer (C14, C09, C08-floats, C17-ASCII).
//!
//! The numeric front end (`algorithm::to_decimal`, Dragonbox) is cut with a Kani stub that
//! decodes a symbolic decimal (mant, exp) from the float's bits; everything after it - digit
//! emission (`write_digits`), rounding/truncation, notation choice, padding, trimming,
//! exponent writing, buffer sizing - is the real code, driven through the public API.
use crate::refs::*;
use core::num::{NonZeroI32, NonZeroUsize};
use lexical_core as lc;
use lexical_core::format::STANDARD;
use lexical_core::{WriteFloatOptions, WriteFloatOptionsBuilder};
use lexical_util::num::{AsPrimitive, Float};
use lexical_write_float::float::{ExtendedFloat80, RawFloat};
use lexical_write_float::options::RoundMode;

/// f64 bits -> (mant: low 40 bits, exp10: bits 40..50 minus 400)
pub fn stub_to_decimal<F: RawFloat>(float: F) -> ExtendedFloat80 {
    let bits: u64 = float.to_bits().as_u64();
    ExtendedFloat80 { mant: bits & 0xff_ffff_ffff, exp: ((bits >> 40) & 0x3ff) as i32 - 400 }
}

pub fn encode_f64(mant: u64, exp10: i32, neg: bool) -> f64 {
    f64::from_bits(mant | (((exp10 + 400) as u64) << 40) | (1u64 << 52) | ((neg as u64) << 63))
}

const POW10: [u128; 39] = {
    let mut t = [1u128; 39];
    let mut i = 1;
    while i < 39 {
        t[i] = t[i - 1] * 10;
        i += 1;
    }
    t
};

pub struct Decoded {
    pub ok: bool,
    pub neg: bool,
    pub digits: u128, // all mantissa digits as one integer
    pub n_int: usize,
    pub n_frac: usize,
    pub has_point: bool,
    pub has_exp: bool,
    pub exp: i32,
    pub exp_plus: bool,
    pub sig: usize, // written mantissa digits from the first non-zero one on
}

/// Decode `[-] digits [point digits] [expchar [+-] digits]` (decimal).
pub fn decode(out: &[u8], point: u8, expc: u8) -> Decoded {
    let mut d = Decoded { ok: false, neg: false, digits: 0, n_int: 0, n_frac: 0, has_point: false, has_exp: false, exp: 0, exp_plus: false, sig: 0 };
    let mut i = 0usize;
    if i < out.len() && out[i] == b'-' {
        d.neg = true;
        i += 1;
    }
    let mut seen_nonzero = false;
    while i < out.len() && out[i] >= b'0' && out[i] <= b'9' {
        if d.n_int >= 36 {
            return d;
        }
        d.digits = d.digits * 10 + (out[i] - b'0') as u128;
        if out[i] != b'0' {
            seen_nonzero = true;
        }
        if seen_nonzero {
            d.sig += 1;
        }
        d.n_int += 1;
        i += 1;
    }
    if d.n_int == 0 {
        return d;
    }
    if i < out.len() && out[i] == point {
        d.has_point = true;
        i += 1;
        while i < out.len() && out[i] >= b'0' && out[i] <= b'9' {
            if d.n_int + d.n_frac >= 36 {
                return d;
            }
            d.digits = d.digits * 10 + (out[i] - b'0') as u128;
            if out[i] != b'0' {
                seen_nonzero = true;
            }
            if seen_nonzero {
                d.sig += 1;
            }
            d.n_frac += 1;
            i += 1;
        }
        if d.n_frac == 0 {
            return d;
        }
    }
    if i < out.len() && out[i] == expc {
        d.has_exp = true;
        i += 1;
        let mut eneg = false;
        if i < out.len() && out[i] == b'-' {
            eneg = true;
            i += 1;
        } else if i < out.len() && out[i] == b'+' {
            d.exp_plus = true;
            i += 1;
        }
        let mut n = 0;
        let mut e: i32 = 0;
        while i < out.len() && out[i] >= b'0' && out[i] <= b'9' {
            if n >= 5 {
                return d;
            }
            e = e * 10 + (out[i] - b'0') as i32;
            n += 1;
            i += 1;
        }
        if n == 0 {
            return d;
        }
        d.exp = if eneg { -e } else { e };
    }
    d.ok = i == out.len();
    d
}

fn ndigits(mut m: u64) -> usize {
    let mut n = 0;
    while m > 0 {
        m /= 10;
        n += 1;
    }
    n
}

/// D1: symbolic decimal and symbolic valid options through `write_with_options`, STANDARD
/// format, buffer of exactly `buffer_size_const` bytes.
macro_rules! d1 {
    ($name:ident, $maxmant:expr, $u:literal, $fmt:expr, $req_exp:expr, $no_exp:expr, $elo:expr, $ehi:expr, $maxopt:expr, $maxbreak:expr) => {
        #[kani::proof]
        #[kani::unwind($u)]
        #[kani::stub(lexical_write_float::algorithm::to_decimal, stub_to_decimal)]
        fn $name() {
            const FMT: u128 = $fmt;
            let mant: u64 = kani::any();
            kani::assume(mant >= 1 && mant < $maxmant && mant % 10 != 0);
            let exp10: i32 = kani::any();
            kani::assume(exp10 >= $elo && exp10 <= $ehi);
            let neg: bool = kani::any();
            // options
            let maxd: usize = kani::any();
            let mind: usize = kani::any();
            kani::assume(maxd <= $maxopt && mind <= $maxopt && (maxd == 0 || mind <= maxd));
            let pb: i32 = kani::any();
            let nb: i32 = kani::any();
            kani::assume(pb >= 0 && pb <= $maxbreak && nb <= 0 && nb >= -$maxbreak);
            let truncate: bool = kani::any();
            let trim: bool = kani::any();
            let point: u8 = kani::any();
            let expc: u8 = kani::any();
            let opts = WriteFloatOptions::builder()
                .max_significant_digits(NonZeroUsize::new(maxd))
                .min_significant_digits(NonZeroUsize::new(mind))
                .positive_exponent_break(NonZeroI32::new(pb))
                .negative_exponent_break(NonZeroI32::new(nb))
                .round_mode(if truncate { RoundMode::Truncate } else { RoundMode::Round })
                .trim_floats(trim)
                .decimal_point(point)
                .exponent(expc)
                .build_unchecked();
            kani::assume(opts.is_valid());
            kani::assume(lexical_util::format::is_valid_options_punctuation(FMT, expc, point));
            // within these option ranges the documented bound is the 64-byte floor
            let size = opts.buffer_size_const::<f64, FMT>();
            assert!(size == 64);
            let mut buf = [0xAAu8; 64];
            let f = encode_f64(mant, exp10, neg);
            let out = lc::write_with_options::<f64, FMT>(f, &mut buf, &opts);
            // C09: within the documented bound
            assert!(out.len() <= size);
            // C17: ASCII
            let mut k = 0;
            while k < out.len() {
                assert!(out[k] < 0x80, "non-ASCII byte written");
                k += 1;
            }
            let d = decode(out, point, expc);
            assert!(d.ok, "output is not [-]digits[.digits][e[+-]digits] with the configured punctuation");
            assert!(d.neg == neg, "sign");
            // expected value after digit control
            let n = ndigits(mant);
            let (r, er, carried) = if maxd != 0 && maxd < n {
                let cut = n - maxd;
                let p = POW10[cut] as u64;
                let q = mant / p;
                let rem = mant % p;
                let half = 5 * (POW10[cut - 1] as u64);
                let up = !truncate && (rem > half || (rem == half && q % 2 == 1));
                let r = q + up as u64;
                (r, exp10 + cut as i32, up && ndigits(r) > maxd)
            } else {
                (mant, exp10, false)
            };
            // value equality: digits * 10^(exp - n_frac) == r * 10^er
            let e_out = d.exp - d.n_frac as i32;
            if e_out >= er {
                let sh = (e_out - er) as usize;
                assert!(sh < 30);
                assert!(d.digits * POW10[sh] == r as u128, "value differs from the rounded decimal");
            } else {
                let sh = (er - e_out) as usize;
                assert!(sh < 30);
                assert!(d.digits == r as u128 * POW10[sh], "value differs from the rounded decimal");
            }
            // notation: judged on the float, or on the rounded value when rounding carried
            let sci_exp = exp10 + n as i32 - 1;
            let nbv = if nb == 0 { -5 } else { nb };
            let pbv = if pb == 0 { 9 } else { pb };
            let outside0 = sci_exp < nbv || sci_exp > pbv;
            let outside1 = sci_exp + 1 < nbv || sci_exp + 1 > pbv;
            if $req_exp {
                assert!(d.has_exp, "format requires exponent notation");
            } else if $no_exp {
                assert!(!d.has_exp, "format forbids exponent notation");
            } else {
                assert!(d.has_exp == outside0 || (carried && d.has_exp == outside1), "notation choice");
            }
            if d.has_exp {
                assert!(d.n_int == 1, "scientific notation has one integer digit");
            }
            // trim_floats / minimum digits
            let trimmed = !d.has_point;
            if !trim {
                assert!(d.has_point && d.n_frac >= 1, "untrimmed output has a fraction");
            } else if d.has_point && exp10 >= 0 && (maxd == 0 || maxd >= n) {
                // documented: "trim a trailing .0 from integral floats" (also with min digits). Only
                // demanded when the float itself is integral and no digit was dropped; what happens
                // to a '.0' that digit truncation produces is not specified.
                assert!(d.digits % POW10[d.n_frac] != 0, "integral float keeps a fraction although trim_floats is set");
            }
            if mind != 0 && !trimmed {
                assert!(d.sig >= mind, "fewer than min_significant_digits digits");
            }
            kani::cover!(d.has_exp && carried, "carry in scientific notation");
            kani::cover!(!d.has_exp && carried, "carry in positional notation");
            kani::cover!(!d.has_exp && d.n_int > 1 && d.n_frac > 1, "positional with fraction");
            kani::cover!(trimmed, "trimmed integer");
            kani::cover!(out.len() == size, "fills the documented bound");
            kani::cover!(d.exp < -99, "three-digit negative exponent");
        }
    };
}
// positional window (small exponents), all exponents with default breaks, symbolic breaks
d1!(d1_pos_3, 1_000, 40, STANDARD, false, false, -8, 8, 4, 0);
d1!(d1_sci_3, 1_000, 40, STANDARD, false, false, -340, 300, 4, 0);
d1!(d1_brk_3, 1_000, 40, STANDARD, false, false, -14, 14, 3, 10);
d1!(d1_pos_5, 100_000, 40, STANDARD, false, false, -10, 10, 6, 0);
d1!(d1_all_5, 100_000, 60, STANDARD, false, false, -340, 300, 8, 12);

/// D2: the three notation writers called directly (no API layer, no notation choice), one per
/// harness, with the same semantic oracle. Cheaper than D1; the notation choice and the buffer
/// bound are D1's/D3's subject.
macro_rules! d2 {
    ($name:ident, $func:ident, $maxmant:expr, $u:literal, $slo:expr, $shi:expr, $maxopt:expr) => {
        #[kani::proof]
        #[kani::unwind($u)]
        fn $name() {
            let mant: u64 = kani::any();
            kani::assume(mant >= 1 && mant < $maxmant && mant % 10 != 0);
            let n = ndigits(mant);
            let sci_exp: i32 = kani::any();
            kani::assume(sci_exp >= $slo && sci_exp <= $shi);
            let exp10 = sci_exp - n as i32 + 1;
            let maxd: usize = kani::any();
            let mind: usize = kani::any();
            kani::assume(maxd <= $maxopt && mind <= $maxopt && (maxd == 0 || mind <= maxd));
            let truncate: bool = kani::any();
            let trim: bool = kani::any();
            let opts = WriteFloatOptions::builder()
                .max_significant_digits(NonZeroUsize::new(maxd))
                .min_significant_digits(NonZeroUsize::new(mind))
                .round_mode(if truncate { RoundMode::Truncate } else { RoundMode::Round })
                .trim_floats(trim)
                .build_unchecked();
            let mut buf = [0xAAu8; 48];
            let fp = ExtendedFloat80 { mant, exp: exp10 };
            let len = lexical_write_float::algorithm::$func::<f64, STANDARD>(&mut buf, fp, sci_exp, &opts);
            assert!(len <= 48);
            let out = &buf[..len];
            let d = decode(out, b'.', b'e');
            assert!(d.ok, "output is not digits[.digits][e[-]digits]");
            let (r, er, carried) = if maxd != 0 && maxd < n {
                let cut = n - maxd;
                let p = POW10[cut] as u64;
                let q = mant / p;
                let rem = mant % p;
                let half = 5 * (POW10[cut - 1] as u64);
                let up = !truncate && (rem > half || (rem == half && q % 2 == 1));
                let r = q + up as u64;
                (r, exp10 + cut as i32, up && ndigits(r) > maxd)
            } else {
                (mant, exp10, false)
            };
            let e_out = d.exp - d.n_frac as i32;
            if e_out >= er {
                let sh = (e_out - er) as usize;
                assert!(sh < 30);
                assert!(d.digits * POW10[sh] == r as u128, "value differs from the rounded decimal");
            } else {
                let sh = (er - e_out) as usize;
                assert!(sh < 30);
                assert!(d.digits == r as u128 * POW10[sh], "value differs from the rounded decimal");
            }
            if !trim {
                assert!(d.has_point && d.n_frac >= 1, "untrimmed output has a fraction");
            } else if d.has_point && exp10 >= 0 && (maxd == 0 || maxd >= n) {
                // documented: "trim a trailing .0 from integral floats" (also with min digits). Only
                // demanded when the float itself is integral and no digit was dropped; what happens
                // to a '.0' that digit truncation produces is not specified.
                assert!(d.digits % POW10[d.n_frac] != 0, "integral float keeps a fraction although trim_floats is set");
            }
            if mind != 0 && d.has_point {
                assert!(d.sig >= mind, "fewer than min_significant_digits digits");
            }
            kani::cover!(carried, "rounding carried into a new leading digit");
            kani::cover!(!d.has_point, "trimmed");
            kani::cover!(maxd != 0 && maxd < n && !carried, "digits dropped");
        }
    };
}
d2!(d2_sci_3, write_float_scientific, 1_000, 30, -320, 300, 4);
d2!(d2_pos_3, write_float_positive_exponent, 1_000, 30, 0, 9, 4);
d2!(d2_neg_3, write_float_negative_exponent, 1_000, 30, -6, -1, 4);
d2!(d2_sci_5, write_float_scientific, 100_000, 30, -320, 300, 6);
d2!(d2_pos_5, write_float_positive_exponent, 100_000, 30, 0, 12, 6);
d2!(d2_neg_5, write_float_negative_exponent, 100_000, 30, -8, -1, 6);

/// D3 (C09): the public API with a buffer of exactly `buffer_size_const` bytes: no panic, no
/// out-of-bounds access, returned length within the bound. No output oracle (that is D2).
macro_rules! d3 {
    ($name:ident, $maxmant:expr, $u:literal, $maxopt:expr, $maxbreak:expr) => {
        #[kani::proof]
        #[kani::unwind($u)]
        #[kani::stub(lexical_write_float::algorithm::to_decimal, stub_to_decimal)]
        fn $name() {
            let mant: u64 = kani::any();
            kani::assume(mant >= 1 && mant < $maxmant && mant % 10 != 0);
            let exp10: i32 = kani::any();
            kani::assume(exp10 >= -340 && exp10 <= 300);
            let neg: bool = kani::any();
            let maxd: usize = kani::any();
            let mind: usize = kani::any();
            kani::assume(maxd <= $maxopt && mind <= $maxopt && (maxd == 0 || mind <= maxd));
            let pb: i32 = kani::any();
            let nb: i32 = kani::any();
            kani::assume(pb >= 0 && pb <= $maxbreak && nb <= 0 && nb >= -$maxbreak);
            let truncate: bool = kani::any();
            let trim: bool = kani::any();
            let opts = WriteFloatOptions::builder()
                .max_significant_digits(NonZeroUsize::new(maxd))
                .min_significant_digits(NonZeroUsize::new(mind))
                .positive_exponent_break(NonZeroI32::new(pb))
                .negative_exponent_break(NonZeroI32::new(nb))
                .round_mode(if truncate { RoundMode::Truncate } else { RoundMode::Round })
                .trim_floats(trim)
                .build_unchecked();
            let size = opts.buffer_size_const::<f64, STANDARD>();
            assert!(size == 64);
            let mut buf = [0xAAu8; 64];
            let f = encode_f64(mant, exp10, neg);
            let out = lc::write_with_options::<f64, STANDARD>(f, &mut buf, &opts);
            assert!(out.len() <= size);
            assert!(out.len() >= 1 && (out[0] == b'-') == neg);
            kani::cover!(out.len() > 20, "long output");
            kani::cover!(neg, "negative");
        }
    };
}
d3!(d3_bound_3, 1_000, 40, 8, 12);
d3!(d3_bound_5, 100_000, 40, 8, 12);

/// D4 (C09): extreme write options, buffer of exactly `buffer_size_const` bytes. Each harness
/// pins one region of the option space named by the property's quantifier ("min/max significant
/// digits up to hundreds, exponent breaks across the whole exponent range"); the numeric front
/// end is the symbolic decimal of D2/D3 with a short mantissa.
macro_rules! d4 {
    ($name:ident, $u:literal, $cap:expr, |$maxd:ident, $mind:ident, $pb:ident, $nb:ident, $sci:ident| $constraint:expr) => {
        #[kani::proof]
        #[kani::unwind($u)]
        #[kani::stub(lexical_write_float::algorithm::to_decimal, stub_to_decimal)]
        fn $name() {
            let mant: u64 = kani::any();
            kani::assume(mant >= 1 && mant < 1_000 && mant % 10 != 0);
            let n = ndigits(mant) as i32;
            let $sci: i32 = kani::any(); // scientific exponent of the value
            let neg: bool = kani::any();
            let $maxd: usize = kani::any();
            let $mind: usize = kani::any();
            let $pb: i32 = kani::any();
            let $nb: i32 = kani::any();
            kani::assume($constraint);
            kani::assume($sci >= -320 && $sci <= 300);
            kani::assume($maxd == 0 || $mind <= $maxd);
            kani::assume($pb >= 0 && $nb <= 0);
            let truncate: bool = kani::any();
            let opts = WriteFloatOptions::builder()
                .max_significant_digits(NonZeroUsize::new($maxd))
                .min_significant_digits(NonZeroUsize::new($mind))
                .positive_exponent_break(NonZeroI32::new($pb))
                .negative_exponent_break(NonZeroI32::new($nb))
                .round_mode(if truncate { RoundMode::Truncate } else { RoundMode::Round })
                .build_unchecked();
            assert!(opts.is_valid());
            let size = opts.buffer_size_const::<f64, STANDARD>();
            assert!(size <= $cap, "harness buffer cap");
            let mut buf = [0xAAu8; $cap];
            let f = encode_f64(mant, $sci - (n - 1), neg);
            let out = lc::write_with_options::<f64, STANDARD>(f, &mut buf[..size], &opts);
            assert!(out.len() <= size);
            assert!(out.len() >= 1 && (out[0] == b'-') == neg);
            kani::cover!(out.len() + 4 > size, "output within 4 bytes of the bound");
            kani::cover!(neg, "negative");
        }
    };
}
// many minimum digits, default breaks: scientific and positional notation
d4!(d4_mindigits, 66, 72, |maxd, mind, pb, nb, sci| maxd == 0 && mind >= 54 && mind <= 58 && pb == 0 && nb == 0);
// far negative break with few maximum digits: long run of leading zeros
d4!(d4_negbreak, 66, 72, |maxd, mind, pb, nb, sci| maxd >= 1 && maxd <= 6 && mind == 0 && pb == 0 && nb <= -42 && nb >= -46 && sci <= -40 && sci >= -48);
// far positive break with few maximum digits: rounding may carry into a new leading digit
d4!(d4_posbreak, 70, 72, |maxd, mind, pb, nb, sci| maxd >= 1 && maxd <= 3 && mind == 0 && nb == 0 && pb >= 60 && pb <= 63 && sci >= 58 && sci <= 65);
