//! C15 (write side): special values and signed zero.
use lexical_core as lc;
use lexical_core::format::STANDARD;
use lexical_core::FormattedSize;
use lexical_core::WriteFloatOptions;

macro_rules! wspecial {
    ($name:ident, $f:ident, $bits:ty) => {
        /// NaN (any payload, any sign bit), +-inf and +-0 through the default writer.
        #[kani::proof]
        #[kani::unwind(12)]
        fn $name() {
            let b: $bits = kani::any();
            let v = <$f>::from_bits(b);
            kani::assume(v.is_nan() || v.is_infinite() || v == 0.0);
            let mut buf = [0xAAu8; <$f>::FORMATTED_SIZE_DECIMAL];
            let out = lc::write(v, &mut buf);
            if v.is_nan() {
                assert!(out == b"NaN", "NaN must be written as the configured string, without a sign");
            } else if v.is_infinite() {
                if v.is_sign_negative() {
                    assert!(out == b"-inf");
                } else {
                    assert!(out == b"inf");
                }
            } else if v.is_sign_negative() {
                assert!(out == b"-0.0", "negative zero keeps its sign");
            } else {
                assert!(out == b"0.0");
            }
            kani::cover!(v.is_nan() && v.is_sign_negative(), "negative NaN");
            kani::cover!(v == 0.0 && v.is_sign_negative(), "negative zero");
            kani::cover!(v.is_infinite() && v.is_sign_negative(), "negative infinity");
        }
    };
}
wspecial!(w_special_f32, f32, u32);
wspecial!(w_special_f64, f64, u64);

macro_rules! wspecial_custom {
    ($name:ident, $f:ident, $bits:ty) => {
        /// Custom NaN/inf strings (symbolic letters, length 1..=4).
        #[kani::proof]
        #[kani::unwind(12)]
        fn $name() {
            let nan: &'static [u8; 4] = Box::leak(Box::new(kani::any()));
            let inf: &'static [u8; 4] = Box::leak(Box::new(kani::any()));
            let nl: usize = kani::any();
            let il: usize = kani::any();
            kani::assume(nl >= 1 && nl <= 4 && il >= 1 && il <= 4);
            let opts = WriteFloatOptions::builder()
                .nan_string(Some(&nan[..nl]))
                .inf_string(Some(&inf[..il]))
                .build_unchecked();
            kani::assume(opts.is_valid());
            let b: $bits = kani::any();
            let v = <$f>::from_bits(b);
            kani::assume(v.is_nan() || v.is_infinite());
            let mut buf = [0xAAu8; 64];
            let out = lc::write_with_options::<$f, STANDARD>(v, &mut buf, &opts);
            let neg = v.is_infinite() && v.is_sign_negative();
            let want = if v.is_nan() { &nan[..nl] } else { &inf[..il] };
            assert!(out.len() == want.len() + neg as usize);
            if neg {
                assert!(out[0] == b'-');
            }
            let body = &out[neg as usize..];
            let mut k = 0;
            while k < want.len() {
                assert!(body[k] == want[k], "special string bytes");
                assert!(body[k] < 0x80, "ASCII");
                k += 1;
            }
            kani::cover!(v.is_nan(), "NaN");
            kani::cover!(neg, "negative infinity");
        }
    };
}
wspecial_custom!(w_special_custom_f32, f32, u32);
wspecial_custom!(w_special_custom_f64, f64, u64);

macro_rules! wspecial_disabled {
    ($name:ident, $f:ident, $v:expr, nan) => {
        #[kani::proof]
        #[kani::unwind(12)]
        #[kani::should_panic]
        fn $name() {
            let opts = WriteFloatOptions::builder().nan_string(None).build_unchecked();
            let mut buf = [0u8; 64];
            let _ = lc::write_with_options::<$f, STANDARD>($v, &mut buf, &opts);
        }
    };
    ($name:ident, $f:ident, $v:expr, inf) => {
        #[kani::proof]
        #[kani::unwind(12)]
        #[kani::should_panic]
        fn $name() {
            let opts = WriteFloatOptions::builder().inf_string(None).build_unchecked();
            let mut buf = [0u8; 64];
            let _ = lc::write_with_options::<$f, STANDARD>($v, &mut buf, &opts);
        }
    };
}
wspecial_disabled!(w_nan_disabled_f32, f32, f32::NAN, nan);
wspecial_disabled!(w_inf_disabled_f64, f64, f64::NEG_INFINITY, inf);
