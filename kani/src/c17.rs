//! C17: the allocating `lexical` facade equals `lexical-core`; output is ASCII.
use crate::refs::*;
use lexical_core as lc;
use lexical_core::FormattedSize;

macro_rules! facade_int {
    ($name:ident, $t:ty, $u:literal) => {
        #[kani::proof]
        #[kani::unwind($u)]
        fn $name() {
            let v: $t = kani::any();
            let s = lexical::to_string(v);
            let mut buf = [0u8; <$t>::FORMATTED_SIZE_DECIMAL];
            let out = lc::write(v, &mut buf);
            let sb = s.as_bytes();
            assert!(sb.len() == out.len(), "facade and core lengths differ");
            let mut k = 0;
            while k < out.len() {
                assert!(sb[k] == out[k], "facade and core bytes differ");
                assert!(out[k] < 0x80, "non-ASCII output byte");
                k += 1;
            }
            kani::cover!(out.len() == <$t>::FORMATTED_SIZE_DECIMAL, "longest output");
            core::mem::forget(s);
        }
    };
}
facade_int!(facade_u8, u8, 6);
facade_int!(facade_i8, i8, 7);
facade_int!(facade_u16, u16, 8);
facade_int!(facade_i16, i16, 9);

macro_rules! facade_parse {
    ($name:ident, $t:ty, $n:expr, $u:literal) => {
        #[kani::proof]
        #[kani::unwind($u)]
        fn $name() {
            let buf: [u8; $n] = kani::any();
            let len: usize = kani::any();
            kani::assume(len <= $n);
            let s = &buf[..len];
            let a = lexical::parse::<$t, _>(s);
            let b = lc::parse::<$t>(s);
            assert!(a == b, "facade parse differs from core parse");
            let a = lexical::parse_partial::<$t, _>(s);
            let b = lc::parse_partial::<$t>(s);
            assert!(a == b, "facade parse_partial differs from core parse_partial");
            kani::cover!(b.is_ok(), "accepted");
            kani::cover!(b.is_err(), "rejected");
        }
    };
}
facade_parse!(facade_parse_u8_3, u8, 3, 5);
facade_parse!(facade_parse_i16_3, i16, 3, 5);
facade_parse!(facade_parse_u32_3, u32, 3, 5);

macro_rules! facade_special {
    ($name:ident, $f:ident, $bits:ty) => {
        #[kani::proof]
        #[kani::unwind(12)]
        fn $name() {
            let b: $bits = kani::any();
            let v = <$f>::from_bits(b);
            kani::assume(v.is_nan() || v.is_infinite() || v == 0.0);
            let s = lexical::to_string(v);
            let mut buf = [0u8; <$f>::FORMATTED_SIZE_DECIMAL];
            let out = lc::write(v, &mut buf);
            let sb = s.as_bytes();
            assert!(sb.len() == out.len());
            let mut k = 0;
            while k < out.len() {
                assert!(sb[k] == out[k] && out[k] < 0x80);
                k += 1;
            }
            kani::cover!(v.is_nan(), "NaN");
            core::mem::forget(s);
        }
    };
}
facade_special!(facade_special_f32, f32, u32);
facade_special!(facade_special_f64, f64, u64);
