//! C08: what lexical writes, lexical parses back to the same value in the same format.
use crate::refs::*;
use lexical_core as lc;
use lexical_core::format::STANDARD;
use lexical_core::FormattedSize;
#[cfg(feature = "power-of-two")]
use lexical_core::NumberFormatBuilder;
use lexical_core::{ParseIntegerOptions, WriteIntegerOptions};

macro_rules! rt_int {
    ($name:ident, $t:ty, $u:literal, $fmt:expr) => {
        #[kani::proof]
        #[kani::unwind($u)]
        fn $name() {
            const FMT: u128 = $fmt;
            const WOPTS: WriteIntegerOptions = WriteIntegerOptions::new();
            const POPTS: ParseIntegerOptions = ParseIntegerOptions::new();
            let v: $t = kani::any();
            let mut buf = [0u8; <$t>::FORMATTED_SIZE + 1];
            let out = lc::write_with_options::<$t, FMT>(v, &mut buf, &WOPTS);
            let n = out.len();
            let back = lc::parse_with_options::<$t, FMT>(&buf[..n], &POPTS);
            assert!(back == Ok(v), "written integer does not parse back to itself");
            let part = lc::parse_partial_with_options::<$t, FMT>(&buf[..n], &POPTS);
            assert!(part == Ok((v, n)), "written integer is not consumed in full by the partial parser");
            kani::cover!(v == <$t>::MIN, "MIN");
            kani::cover!(v == <$t>::MAX, "MAX");
        }
    };
}
rt_int!(rt_u8, u8, 18, STANDARD);
rt_int!(rt_i8, i8, 18, STANDARD);
rt_int!(rt_u16, u16, 34, STANDARD);
rt_int!(rt_i16, i16, 34, STANDARD);
#[cfg(feature = "power-of-two")]
mod radix {
    use super::*;
    rt_int!(rt_u8_r2, u8, 18, NumberFormatBuilder::from_radix(2));
    rt_int!(rt_i8_r16, i8, 18, NumberFormatBuilder::from_radix(16));
    rt_int!(rt_i16_r16, i16, 34, NumberFormatBuilder::from_radix(16));
    rt_int!(rt_u16_r32, u16, 34, NumberFormatBuilder::from_radix(32));
    #[cfg(feature = "radix")]
    rt_int!(rt_i16_r36, i16, 34, NumberFormatBuilder::from_radix(36));
    #[cfg(feature = "radix")]
    rt_int!(rt_u8_r3, u8, 18, NumberFormatBuilder::from_radix(3));
    #[cfg(feature = "radix")]
    rt_int!(rt_i8_r7, i8, 18, NumberFormatBuilder::from_radix(7));
}
#[cfg(feature = "format")]
mod fmt {
    use super::*;
    rt_int!(rt_i8_required_sign, i8, 18, lexical_core::NumberFormatBuilder::new().required_mantissa_sign(true).build_strict());
    rt_int!(rt_i16_no_positive_sign, i16, 34, lexical_core::NumberFormatBuilder::new().no_positive_mantissa_sign(true).build_strict());
}

/// Wide types on cubes: write then parse.
macro_rules! rt_cube {
    ($name:ident, $t:ty, $u:literal, $bases:expr) => {
        #[kani::proof]
        #[kani::unwind($u)]
        fn $name() {
            const BASES: &[$t] = $bases;
            let bi: usize = kani::any();
            kani::assume(bi < BASES.len());
            let d: u8 = kani::any();
            let up: bool = kani::any();
            let b = BASES[bi];
            let v = if up { b.wrapping_add(d as $t) } else { b.wrapping_sub(d as $t) };
            let mut buf = [0u8; <$t>::FORMATTED_SIZE_DECIMAL];
            let n = lc::write(v, &mut buf).len();
            assert!(lc::parse::<$t>(&buf[..n]) == Ok(v), "written integer does not parse back to itself");
            kani::cover!(v == <$t>::MIN, "MIN");
            kani::cover!(v == <$t>::MAX, "MAX");
        }
    };
}
rt_cube!(rtc_u32, u32, 13, &[0, 1000000000, u32::MAX]);
rt_cube!(rtc_i32, i32, 14, &[0, -1000000000, i32::MAX, i32::MIN]);
rt_cube!(rtc_u64, u64, 23, &[0, 10000000000, 10000000000000000000, u64::MAX]);
rt_cube!(rtc_i64, i64, 23, &[0, -10000000000, i64::MAX, i64::MIN]);
