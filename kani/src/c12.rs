//! C12: number-format syntax flags accept exactly the documented grammar (non-STANDARD flags).
use crate::pf::{cmp_float, map_err, stub_bits, stub_fast, stub_moderate, stub_slow};
use crate::refs::*;
use core::num::NonZeroU8;
use lexical_core as lc;
use lexical_core::Error;
use lexical_core::NumberFormatBuilder;
use lexical_core::{ParseFloatOptions, ParseIntegerOptions};

/// The number alphabet of C12.
fn in_alphabet(c: u8, junk: u8) -> bool {
    c == b'+' || c == b'-' || c == b'.' || c == b'0' || c == b'1' || c == b'9' || c == b'e' || c == b'E'
        || c == b'x' || c == b'X' || c == b'h' || c == b'n' || c == b'a' || c == b'N' || c == b'i' || c == b'f' || c == junk
}

macro_rules! iflag {
    ($name:ident, $t:ty, $n:expr, $u:literal, $fmt:expr, $g:expr) => {
        #[kani::proof]
        #[kani::unwind($u)]
        fn $name() {
            const FMT: u128 = $fmt;
            const OPTS: ParseIntegerOptions = ParseIntegerOptions::new();
            let g: IntGram = $g;
            let buf: [u8; $n] = kani::any();
            let len: usize = kani::any();
            kani::assume(len <= $n);
            let junk: u8 = kani::any();
            let mut k = 0;
            while k < $n {
                kani::assume(in_alphabet(buf[k], junk));
                k += 1;
            }
            let s = &buf[..len];
            let got = lc::parse_with_options::<$t, FMT>(s, &OPTS);
            let want = ref_int_flags(s, &g, <$t>::SIGNED);
            match (got, want) {
                (Ok(v), Some((neg, mag))) => {
                    let (gn, gm) = v.sign_mag();
                    assert!(gn == neg && gm as u64 == mag, "accepted input does not have the value of its digits");
                },
                (Err(e), None) => assert!(e.index().map_or(true, |&i| i <= len)),
                (Ok(_), None) => assert!(false, "accepted an input the documented grammar does not derive"),
                (Err(_), Some(_)) => assert!(false, "rejected an input the documented grammar derives"),
            }
            kani::cover!(got.is_ok() && len == $n, "accepted");
            kani::cover!(got.is_err() && len > 1, "rejected");
        }
    };
}
const STDI: IntGram = IntGram { radix: 10, no_positive_sign: false, required_sign: false, no_leading_zeros: false, prefix: 0, suffix: 0, case_sensitive_prefix: false, case_sensitive_suffix: false };

iflag!(int_no_leading_zeros_i32_4, i32, 4, 6, NumberFormatBuilder::new().no_integer_leading_zeros(true).build_strict(), IntGram { no_leading_zeros: true, ..STDI });
iflag!(int_no_leading_zeros_u8_3, u8, 3, 5, NumberFormatBuilder::new().no_integer_leading_zeros(true).build_strict(), IntGram { no_leading_zeros: true, ..STDI });
iflag!(int_no_positive_sign_i32_4, i32, 4, 6, NumberFormatBuilder::new().no_positive_mantissa_sign(true).build_strict(), IntGram { no_positive_sign: true, ..STDI });
iflag!(int_required_sign_i32_4, i32, 4, 6, NumberFormatBuilder::new().required_mantissa_sign(true).build_strict(), IntGram { required_sign: true, ..STDI });
iflag!(int_required_sign_nlz_i16_4, i16, 4, 6, NumberFormatBuilder::new().required_mantissa_sign(true).no_integer_leading_zeros(true).build_strict(), IntGram { required_sign: true, no_leading_zeros: true, ..STDI });
#[cfg(feature = "power-of-two")]
mod p2 {
    use super::*;
    iflag!(int_prefix_x_i32_5, i32, 5, 7, NumberFormatBuilder::new().base_prefix(NonZeroU8::new(b'x')).build_strict(), IntGram { prefix: b'x', ..STDI });
    iflag!(int_prefix_x_cased_i32_5, i32, 5, 7, NumberFormatBuilder::new().base_prefix(NonZeroU8::new(b'x')).case_sensitive_base_prefix(true).build_strict(), IntGram { prefix: b'x', case_sensitive_prefix: true, ..STDI });
    iflag!(int_suffix_h_i32_4, i32, 4, 6, NumberFormatBuilder::new().base_suffix(NonZeroU8::new(b'h')).build_strict(), IntGram { suffix: b'h', ..STDI });
    iflag!(int_prefix_suffix_u32_5, u32, 5, 7, NumberFormatBuilder::new().base_prefix(NonZeroU8::new(b'x')).base_suffix(NonZeroU8::new(b'h')).build_strict(), IntGram { prefix: b'x', suffix: b'h', ..STDI });
    iflag!(int_prefix_nlz_i32_5, i32, 5, 7, NumberFormatBuilder::new().base_prefix(NonZeroU8::new(b'x')).no_integer_leading_zeros(true).build_strict(), IntGram { prefix: b'x', no_leading_zeros: true, ..STDI });
}

/// Floats: one syntax flag set per harness, numeric back end stubbed; accept/reject, consumed
/// count and the digit decomposition against the flag-parameterised reference recogniser.
macro_rules! fflag {
    ($name:ident, $n:expr, $u:literal, $fmt:expr, $g:expr) => {
        #[kani::proof]
        #[kani::unwind($u)]
        #[kani::stub(lexical_parse_float::parse::moderate_path, stub_moderate)]
        #[kani::stub(lexical_parse_float::parse::slow_path, stub_slow)]
        #[kani::stub(lexical_parse_float::number::Number::try_fast_path, stub_fast)]
        fn $name() {
            const FMT: u128 = $fmt;
            const OPTS: ParseFloatOptions = ParseFloatOptions::new();
            let g: Gram = $g;
            let buf: [u8; $n] = kani::any();
            let len: usize = kani::any();
            kani::assume(len <= $n);
            let junk: u8 = kani::any();
            let mut k = 0;
            while k < $n {
                kani::assume(in_alphabet(buf[k], junk));
                k += 1;
            }
            let s = &buf[..len];
            let c = lc::parse_with_options::<f64, FMT>(s, &OPTS);
            let r = ref_float(s, &g, false);
            cmp_float!(f64, c.map(|v| (v, len)), r, len, false);
            kani::cover!(c.is_ok() && len == $n, "accepted");
            kani::cover!(c.is_err() && len > 1, "rejected");
        }
    };
}
fflag!(f_required_integer_digits_4, 4, 6, NumberFormatBuilder::new().required_integer_digits(true).build_strict(), Gram { required_integer_digits: true, ..STD_GRAM });
fflag!(f_required_fraction_digits_4, 4, 6, NumberFormatBuilder::new().required_fraction_digits(true).build_strict(), Gram { required_fraction_digits: true, ..STD_GRAM });
fflag!(f_no_positive_mantissa_sign_4, 4, 6, NumberFormatBuilder::new().no_positive_mantissa_sign(true).build_strict(), Gram { no_positive_mantissa_sign: true, ..STD_GRAM });
fflag!(f_required_mantissa_sign_4, 4, 6, NumberFormatBuilder::new().required_mantissa_sign(true).build_strict(), Gram { required_mantissa_sign: true, ..STD_GRAM });
fflag!(f_no_exponent_notation_4, 4, 6, NumberFormatBuilder::new().no_exponent_notation(true).build_strict(), Gram { no_exponent_notation: true, ..STD_GRAM });
fflag!(f_no_positive_exponent_sign_4, 4, 6, NumberFormatBuilder::new().no_positive_exponent_sign(true).build_strict(), Gram { no_positive_exponent_sign: true, ..STD_GRAM });
fflag!(f_required_exponent_sign_4, 4, 6, NumberFormatBuilder::new().required_exponent_sign(true).build_strict(), Gram { required_exponent_sign: true, ..STD_GRAM });
fflag!(f_no_exponent_without_fraction_4, 4, 6, NumberFormatBuilder::new().no_exponent_without_fraction(true).build_strict(), Gram { no_exponent_without_fraction: true, ..STD_GRAM });
fflag!(f_no_special_4, 4, 6, NumberFormatBuilder::new().no_special(true).build_strict(), Gram { no_special: true, ..STD_GRAM });
fflag!(f_case_sensitive_special_4, 4, 6, NumberFormatBuilder::new().case_sensitive_special(true).build_strict(), Gram { case_sensitive_special: true, ..STD_GRAM });
fflag!(f_no_float_leading_zeros_4, 4, 6, NumberFormatBuilder::new().no_float_leading_zeros(true).build_strict(), Gram { no_float_leading_zeros: true, ..STD_GRAM });
fflag!(f_required_exponent_notation_4, 4, 6, NumberFormatBuilder::new().required_exponent_notation(true).build_strict(), Gram { required_exponent_notation: true, ..STD_GRAM });
fflag!(f_case_sensitive_exponent_4, 4, 6, NumberFormatBuilder::new().case_sensitive_exponent(true).build_strict(), Gram { case_sensitive_exponent: true, ..STD_GRAM });
fflag!(f_required_digits_5, 5, 7, NumberFormatBuilder::new().required_digits(true).build_strict(), Gram { required_integer_digits: true, required_fraction_digits: true, required_exponent_digits: true, required_mantissa_digits: true, ..STD_GRAM });
fflag!(f_not_required_exponent_digits_4, 4, 6, NumberFormatBuilder::new().required_exponent_digits(false).build_strict(), Gram { required_exponent_digits: false, ..STD_GRAM });
fflag!(f_req_exp_sign_req_notation_5, 5, 7, NumberFormatBuilder::new().required_exponent_sign(true).required_exponent_notation(true).build_strict(), Gram { required_exponent_sign: true, required_exponent_notation: true, ..STD_GRAM });
