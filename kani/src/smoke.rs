//! Runner self-test harnesses (not part of any property).
#[kani::proof]
fn smoke_pass() {
    let x: u8 = kani::any();
    assert!(x as u32 + 1 > 0);
    kani::cover!(x == 7, "x can be 7");
}
#[kani::proof]
fn smoke_fail() {
    let x: u8 = kani::any();
    assert!(x != 77, "x is not 77");
}
#[kani::proof]
fn smoke_vacuous() {
    let x: u8 = kani::any();
    kani::assume(x > 5);
    kani::cover!(x == 3, "unreachable witness");
}
#[kani::proof]
#[kani::unwind(3)]
fn smoke_unwind() {
    let n: u8 = kani::any();
    let mut i = 0u8;
    while i < n { i += 1; }
    assert!(i == n);
}
#[cfg(alexhuszagh_rust_lexical_verif)]
#[kani::proof]
fn smoke_hook_cfg() {
    assert!(1 + 1 == 2);
}
