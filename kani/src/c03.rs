//! C03 (+ the integer half of C09/C08/C17): integer -> string is the canonical numeral.
use crate::refs::*;
use lexical_core as lc;
use lexical_core::format::STANDARD;
use lexical_core::FormattedSize;
#[cfg(feature = "power-of-two")]
use lexical_core::NumberFormatBuilder;
use lexical_core::WriteIntegerOptions;

/// W1: every value of a narrow type through `lexical_core::write`, buffer of
/// exactly FORMATTED_SIZE_DECIMAL bytes (C09: no panic, length within the bound).
macro_rules! w1 {
    ($name:ident, $t:ty, $canon:ident, $u:literal) => {
        #[kani::proof]
        #[kani::unwind($u)]
        fn $name() {
            let v: $t = kani::any();
            let mut buf = [0u8; <$t>::FORMATTED_SIZE_DECIMAL];
            let base = buf.as_ptr() as usize;
            let out = lc::write(v, &mut buf);
            assert!(out.as_ptr() as usize == base, "returned slice starts at the buffer start");
            assert!(out.len() <= <$t>::FORMATTED_SIZE_DECIMAL);
            let (neg, mag) = v.sign_mag();
            assert!($canon(out, neg, mag as _, 10, false), "not the canonical decimal numeral");
            kani::cover!(out.len() == <$t>::FORMATTED_SIZE_DECIMAL, "longest output");
            kani::cover!(out.len() == 1, "single digit");
        }
    };
}
w1!(w1_u8, u8, canonical_u64, 6);
w1!(w1_i8, i8, canonical_u64, 7);
w1!(w1_u16, u16, canonical_u64, 8);
w1!(w1_i16, i16, canonical_u64, 9);

/// W2: cubes for wide types: `base op d` for a symbolic 16-bit d around every
/// interesting base (powers of ten, type limits).
macro_rules! w2 {
    ($name:ident, $t:ty, $canon:ident, $u:literal, $bases:expr) => {
        #[kani::proof]
        #[kani::unwind($u)]
        fn $name() {
            const BASES: &[$t] = $bases;
            let bi: usize = kani::any();
            kani::assume(bi < BASES.len());
            let d: u16 = kani::any();
            kani::assume(d <= 300);
            let up: bool = kani::any();
            let b = BASES[bi];
            let v = if up { b.wrapping_add(d as $t) } else { b.wrapping_sub(d as $t) };
            let mut buf = [0u8; <$t>::FORMATTED_SIZE_DECIMAL];
            let out = lc::write(v, &mut buf);
            assert!(out.len() <= <$t>::FORMATTED_SIZE_DECIMAL);
            let (neg, mag) = v.sign_mag();
            assert!($canon(out, neg, mag as _, 10, false), "not the canonical decimal numeral");
            kani::cover!(out.len() == <$t>::FORMATTED_SIZE_DECIMAL, "longest output");
            kani::cover!(v == <$t>::MIN, "MIN");
            kani::cover!(v == <$t>::MAX, "MAX");
        }
    };
}
w2!(w2_u32, u32, canonical_u64, 13, &[0, 10, 100, 1000, 10000, 100000, 1000000, 10000000, 100000000, 1000000000, u32::MAX]);
w2!(w2_i32, i32, canonical_u64, 14, &[0, 1000, 10000, 1000000, 100000000, 1000000000, -1000000000, -10000, i32::MAX, i32::MIN]);
w2!(w2_u64, u64, canonical_u128, 23, &[0, 10000, 100000000, 10000000000, 1000000000000000, 10000000000000000000, u64::MAX]);
w2!(w2_i64, i64, canonical_u128, 23, &[0, 10000000000, -10000000000, 1000000000000000000, i64::MAX, i64::MIN]);
w2!(w2_u128, u128, canonical_u128, 42, &[0, 10000000000, 100000000000000000000, 1000000000000000000000000000000, 100000000000000000000000000000000000000, u128::MAX]);
w2!(w2_i128, i128, canonical_u128, 43, &[0, -100000000000000000000, 100000000000000000000000000000000000000, i128::MAX, i128::MIN]);
w2!(w2_usize, usize, canonical_u128, 23, &[0, 10000000000, usize::MAX]);
w2!(w2_isize, isize, canonical_u128, 23, &[0, -10000000000, isize::MAX, isize::MIN]);

/// W3: other radices through `write_with_options` (features power-of-two / radix),
/// buffer of exactly FORMATTED_SIZE bytes.
#[cfg(feature = "power-of-two")]
mod radix {
    use super::*;
    macro_rules! w3 {
        ($name:ident, $t:ty, $canon:ident, $u:literal, $radix:literal) => {
            #[kani::proof]
            #[kani::unwind($u)]
            fn $name() {
                const FMT: u128 = NumberFormatBuilder::from_radix($radix);
                const OPTS: WriteIntegerOptions = WriteIntegerOptions::new();
                let v: $t = kani::any();
                let mut buf = [0u8; <$t>::FORMATTED_SIZE];
                let out = lc::write_with_options::<$t, FMT>(v, &mut buf, &OPTS);
                assert!(out.len() <= <$t>::FORMATTED_SIZE);
                let (neg, mag) = v.sign_mag();
                assert!($canon(out, neg, mag as _, $radix, false), "not the canonical numeral");
                kani::cover!(v == <$t>::MAX, "MAX");
                kani::cover!(out.len() == 1, "single digit");
            }
        };
    }
    w3!(w3_u8_r2, u8, canonical_u64, 18, 2);
    w3!(w3_i8_r2, i8, canonical_u64, 18, 2);
    w3!(w3_u8_r16, u8, canonical_u64, 18, 16);
    w3!(w3_i8_r16, i8, canonical_u64, 18, 16);
    w3!(w3_u8_r4, u8, canonical_u64, 18, 4);
    w3!(w3_u8_r8, u8, canonical_u64, 18, 8);
    w3!(w3_u8_r32, u8, canonical_u64, 18, 32);
    w3!(w3_u16_r16, u16, canonical_u64, 34, 16);
    w3!(w3_i16_r16, i16, canonical_u64, 34, 16);
    w3!(w3_u16_r2, u16, canonical_u64, 34, 2);
    w3!(w3_i16_r8, i16, canonical_u64, 34, 8);
    w3!(w3_u16_r32, u16, canonical_u64, 34, 32);
    w3!(w3_u16_r4, u16, canonical_u64, 34, 4);
    #[cfg(feature = "radix")]
    mod generic {
        use super::*;
        macro_rules! w3all {
            ($($r:literal => $a:ident $b:ident;)*) => {$(
                w3!($a, u8, canonical_u64, 18, $r);
                w3!($b, i16, canonical_u64, 34, $r);
            )*};
        }
        w3all! {
            3 => w3_u8_r3 w3_i16_r3; 5 => w3_u8_r5 w3_i16_r5; 6 => w3_u8_r6 w3_i16_r6;
            7 => w3_u8_r7 w3_i16_r7; 9 => w3_u8_r9 w3_i16_r9; 10 => w3_u8_r10 w3_i16_r10;
            11 => w3_u8_r11 w3_i16_r11; 12 => w3_u8_r12 w3_i16_r12; 13 => w3_u8_r13 w3_i16_r13;
            14 => w3_u8_r14 w3_i16_r14; 15 => w3_u8_r15 w3_i16_r15; 17 => w3_u8_r17 w3_i16_r17;
            18 => w3_u8_r18 w3_i16_r18; 19 => w3_u8_r19 w3_i16_r19; 20 => w3_u8_r20 w3_i16_r20;
            21 => w3_u8_r21 w3_i16_r21; 22 => w3_u8_r22 w3_i16_r22; 23 => w3_u8_r23 w3_i16_r23;
            24 => w3_u8_r24 w3_i16_r24; 25 => w3_u8_r25 w3_i16_r25; 26 => w3_u8_r26 w3_i16_r26;
            27 => w3_u8_r27 w3_i16_r27; 28 => w3_u8_r28 w3_i16_r28; 29 => w3_u8_r29 w3_i16_r29;
            30 => w3_u8_r30 w3_i16_r30; 31 => w3_u8_r31 w3_i16_r31; 33 => w3_u8_r33 w3_i16_r33;
            34 => w3_u8_r34 w3_i16_r34; 35 => w3_u8_r35 w3_i16_r35; 36 => w3_u8_r36 w3_i16_r36;
        }
    }
}

/// W4: `format` feature: required '+' sign.
#[cfg(feature = "format")]
mod fmt {
    use super::*;
    const PLUS: u128 = lexical_core::NumberFormatBuilder::new().required_mantissa_sign(true).build_strict();
    macro_rules! w4 {
        ($name:ident, $t:ty, $u:literal) => {
            #[kani::proof]
            #[kani::unwind($u)]
            fn $name() {
                const OPTS: WriteIntegerOptions = WriteIntegerOptions::new();
                let v: $t = kani::any();
                let mut buf = [0u8; <$t>::FORMATTED_SIZE_DECIMAL + 1];
                let out = lc::write_with_options::<$t, PLUS>(v, &mut buf, &OPTS);
                let (neg, mag) = v.sign_mag();
                assert!(canonical_u64(out, neg, mag as _, 10, true), "required sign numeral");
                kani::cover!(out[0] == b'+', "plus written");
            }
        };
    }
    w4!(w4_u8_plus, u8, 7);
    w4!(w4_i8_plus, i8, 8);
    w4!(w4_i16_plus, i16, 10);
}
