//! C04: string -> integer is exact, with exact overflow detection.
//!
//! Every harness compares the real `lexical_core` parsers with the
//! left-to-right reference scan in `refs.rs` on *symbolic* input bytes.
use crate::refs::*;
use lexical_core as lc;
use lexical_core::Error;
use lexical_core::format::STANDARD;
#[cfg(feature = "power-of-two")]
use lexical_core::NumberFormatBuilder;
use lexical_core::ParseIntegerOptions;

/// Compare a complete-parser result with the reference.
macro_rules! check_complete {
    ($got:expr, $want:expr, $len:expr) => {{
        match ($got, $want) {
            (Ok(v), RefInt::Ok(n, m, c)) => {
                assert!(c == $len);
                let (gn, gm) = v.sign_mag();
                assert!(gn == n && gm == m, "complete parser returned a wrong value");
            },
            (Err(Error::Empty(i)), RefInt::Empty(j)) => assert!(i == j, "Empty index"),
            (Err(Error::InvalidDigit(i)), RefInt::InvalidDigit(j)) => {
                assert!(i == j, "InvalidDigit index")
            },
            (Err(Error::Overflow(i)), RefInt::Overflow(j)) => assert!(i == j, "Overflow index"),
            (Err(Error::Underflow(i)), RefInt::Underflow(j)) => assert!(i == j, "Underflow index"),
            _ => assert!(false, "complete parser and reference disagree on the result kind"),
        }
    }};
}
macro_rules! check_partial {
    ($got:expr, $want:expr, $len:expr) => {{
        match ($got, $want) {
            (Ok((v, cnt)), RefInt::Ok(n, m, c)) => {
                assert!(cnt == c, "partial parser consumed count");
                assert!(cnt <= $len);
                let (gn, gm) = v.sign_mag();
                assert!(gn == n && gm == m, "partial parser returned a wrong value");
            },
            (Err(Error::Empty(i)), RefInt::Empty(j)) => assert!(i == j, "Empty index"),
            (Err(Error::Overflow(i)), RefInt::Overflow(j)) => assert!(i == j, "Overflow index"),
            (Err(Error::Underflow(i)), RefInt::Underflow(j)) => assert!(i == j, "Underflow index"),
            _ => assert!(false, "partial parser and reference disagree on the result kind"),
        }
    }};
}
pub(crate) use check_complete;
pub(crate) use check_partial;

/// K1: arbitrary bytes, symbolic length <= N, default (decimal, STANDARD) API.
macro_rules! k1 {
    ($name:ident, $t:ty, $reff:ident, $n:expr, $u:literal) => {
        #[kani::proof]
        #[kani::unwind($u)]
        fn $name() {
            let buf: [u8; $n] = kani::any();
            let len: usize = kani::any();
            kani::assume(len <= $n);
            let s = &buf[..len];
            let c = lc::parse::<$t>(s);
            let p = lc::parse_partial::<$t>(s);
            let rc = $reff(s, 10, <$t>::SIGNED, <$t>::MAX_POS, <$t>::MAX_NEG, false);
            let rp = $reff(s, 10, <$t>::SIGNED, <$t>::MAX_POS, <$t>::MAX_NEG, true);
            check_complete!(c, rc, len);
            check_partial!(p, rp, len);
            kani::cover!(c.is_ok() && len == $n, "accepted full-length input");
            kani::cover!(
                matches!(c, Err(Error::InvalidDigit(i)) if i > 0),
                "invalid digit after some digits"
            );
            kani::cover!(matches!(c, Err(Error::Empty(_))), "empty");
            kani::cover!(matches!(p, Ok((_, n)) if n > 0 && n < len), "partial stops early");
        }
    };
}

k1!(k1_u8_4, u8, ref_int_u64, 4, 6);
k1!(k1_i8_4, i8, ref_int_u64, 4, 6);
k1!(k1_u16_4, u16, ref_int_u64, 4, 6);
k1!(k1_i16_4, i16, ref_int_u64, 4, 6);
k1!(k1_u32_4, u32, ref_int_u64, 4, 6);
k1!(k1_i32_4, i32, ref_int_u64, 4, 6);
k1!(k1_u64_4, u64, ref_int_u128, 4, 6);
k1!(k1_i64_4, i64, ref_int_u128, 4, 6);
k1!(k1_u128_4, u128, ref_int_u128, 4, 6);
k1!(k1_i128_4, i128, ref_int_u128, 4, 6);
k1!(k1_usize_4, usize, ref_int_u128, 4, 6);
k1!(k1_isize_4, isize, ref_int_u128, 4, 6);

k1!(k1_i8_3, i8, ref_int_u64, 3, 5);
k1!(k1_i16_3, i16, ref_int_u64, 3, 5);
k1!(k1_i32_3, i32, ref_int_u64, 3, 5);
k1!(k1_i64_3, i64, ref_int_u128, 3, 5);
k1!(k1_i128_3, i128, ref_int_u128, 3, 5);

k1!(k1_u8_6, u8, ref_int_u64, 6, 8);
k1!(k1_i8_6, i8, ref_int_u64, 6, 8);
k1!(k1_u16_6, u16, ref_int_u64, 6, 8);
k1!(k1_i16_6, i16, ref_int_u64, 6, 8);
k1!(k1_u32_6, u32, ref_int_u64, 6, 8);
k1!(k1_i32_6, i32, ref_int_u64, 6, 8);
k1!(k1_u64_6, u64, ref_int_u128, 6, 8);
k1!(k1_i64_6, i64, ref_int_u128, 6, 8);
k1!(k1_u128_6, u128, ref_int_u128, 6, 8);
k1!(k1_i128_6, i128, ref_int_u128, 6, 8);

k1!(k1_u32_8, u32, ref_int_u64, 8, 10);
k1!(k1_i32_8, i32, ref_int_u64, 8, 10);
k1!(k1_u64_8, u64, ref_int_u128, 8, 10);
k1!(k1_i64_8, i64, ref_int_u128, 8, 10);

/// K1c/K1p: the same, one entry point per harness, with the options API
/// (`no_multi_digit` on or off) - K3 of the design.
macro_rules! k1opt {
    ($name:ident, $t:ty, $reff:ident, $n:expr, $u:literal, $nomulti:expr, $partial:expr) => {
        #[kani::proof]
        #[kani::unwind($u)]
        fn $name() {
            const OPTS: ParseIntegerOptions =
                ParseIntegerOptions::builder().no_multi_digit($nomulti).build_unchecked();
            let buf: [u8; $n] = kani::any();
            let len: usize = kani::any();
            kani::assume(len <= $n);
            let s = &buf[..len];
            let r = $reff(s, 10, <$t>::SIGNED, <$t>::MAX_POS, <$t>::MAX_NEG, $partial);
            if $partial {
                let p = lc::parse_partial_with_options::<$t, STANDARD>(s, &OPTS);
                check_partial!(p, r, len);
                kani::cover!(matches!(p, Ok((_, n)) if n == $n), "accepted full-length input");
            } else {
                let c = lc::parse_with_options::<$t, STANDARD>(s, &OPTS);
                check_complete!(c, r, len);
                kani::cover!(c.is_ok() && len == $n, "accepted full-length input");
            }
        }
    };
}
k1opt!(k3_u32_6_multi_c, u32, ref_int_u64, 6, 8, false, false);
k1opt!(k3_u32_6_nomulti_c, u32, ref_int_u64, 6, 8, true, false);
k1opt!(k3_u32_6_multi_p, u32, ref_int_u64, 6, 8, false, true);
k1opt!(k3_u32_6_nomulti_p, u32, ref_int_u64, 6, 8, true, true);
k1opt!(k3_i32_6_multi_c, i32, ref_int_u64, 6, 8, false, false);
k1opt!(k3_i32_6_nomulti_c, i32, ref_int_u64, 6, 8, true, false);
k1opt!(k3_u64_9_multi_c, u64, ref_int_u128, 9, 11, false, false);
k1opt!(k3_u64_9_nomulti_c, u64, ref_int_u128, 9, 11, true, false);
k1opt!(k3_u64_9_multi_p, u64, ref_int_u128, 9, 11, false, true);
k1opt!(k3_i64_9_multi_c, i64, ref_int_u128, 9, 11, false, false);
k1opt!(k3_u128_9_multi_c, u128, ref_int_u128, 9, 11, false, false);
k1opt!(k3_i128_9_multi_p, i128, ref_int_u128, 9, 11, false, true);

/// K2: the overflow frontier for narrow types. `[sign] digits` with one
/// arbitrary byte at a symbolic position, length up to max_digits + 2.
macro_rules! k2 {
    ($name:ident, $t:ty, $reff:ident, $n:expr, $u:literal, $radix:expr, $fmt:expr) => {
        #[kani::proof]
        #[kani::unwind($u)]
        fn $name() {
            const FMT: u128 = $fmt;
            const OPTS: ParseIntegerOptions = ParseIntegerOptions::new();
            let buf: [u8; $n] = kani::any();
            let len: usize = kani::any();
            kani::assume(len <= $n);
            let junk: usize = kani::any();
            let mut k = 0;
            while k < $n {
                let c = buf[k];
                let ok = digit(c, $radix).is_some()
                    || k == junk
                    || (k == 0 && (c == b'+' || c == b'-'));
                kani::assume(ok);
                k += 1;
            }
            let s = &buf[..len];
            let c = lc::parse_with_options::<$t, FMT>(s, &OPTS);
            let p = lc::parse_partial_with_options::<$t, FMT>(s, &OPTS);
            let rc = $reff(s, $radix, <$t>::SIGNED, <$t>::MAX_POS, <$t>::MAX_NEG, false);
            let rp = $reff(s, $radix, <$t>::SIGNED, <$t>::MAX_POS, <$t>::MAX_NEG, true);
            check_complete!(c, rc, len);
            check_partial!(p, rp, len);
            kani::cover!(matches!(c, Err(Error::Overflow(i)) if i + 1 < len), "overflow before the last digit");
            kani::cover!(matches!(c, Err(Error::Overflow(i)) if i + 1 == len), "overflow at the last digit");
            kani::cover!(c.is_ok() && len == $n - 1, "long accepted input");
            kani::cover!(matches!(p, Err(Error::Overflow(_))), "partial parser overflow");
        }
    };
}
k2!(k2_u8_5, u8, ref_int_u64, 5, 7, 10, STANDARD);
k2!(k2_i8_5, i8, ref_int_u64, 5, 7, 10, STANDARD);
k2!(k2_u16_7, u16, ref_int_u64, 7, 9, 10, STANDARD);
k2!(k2_i16_7, i16, ref_int_u64, 7, 9, 10, STANDARD);
k2!(k2_u32_12, u32, ref_int_u64, 12, 14, 10, STANDARD);
k2!(k2_i32_12, i32, ref_int_u64, 12, 14, 10, STANDARD);

/// K2w: overflow-frontier *windows* for wide types: optional sign, z<=2 leading
/// zeros, a concrete prefix of the type's extreme value, 6 symbolic digits and
/// an optional extra symbolic digit.
macro_rules! k2w {
    ($name:ident, $t:ty, $reff:ident, $prefix:expr, $plen:literal, $total:literal, $u:literal) => {
        #[kani::proof]
        #[kani::unwind($u)]
        fn $name() {
            const P: &[u8] = $prefix;
            let mut buf = [b'0'; $total];
            let sign: u8 = kani::any();
            kani::assume(sign == 0 || sign == b'+' || sign == b'-');
            let z: usize = kani::any();
            kani::assume(z <= 2);
            let ntail: usize = kani::any();
            kani::assume(ntail >= 5 && ntail <= 7);
            let tail: [u8; 7] = kani::any();
            let mut n = 0usize;
            if sign != 0 {
                buf[0] = sign;
                n = 1;
            }
            n += z;
            let mut k = 0;
            while k < $plen {
                buf[n + k] = P[k];
                k += 1;
            }
            n += $plen;
            k = 0;
            while k < 7 {
                kani::assume(tail[k] >= b'0' && tail[k] <= b'9');
                if k < ntail {
                    buf[n + k] = tail[k];
                }
                k += 1;
            }
            let len = n + ntail;
            let s = &buf[..len];
            let c = lc::parse::<$t>(s);
            let rc = $reff(s, 10, <$t>::SIGNED, <$t>::MAX_POS, <$t>::MAX_NEG, false);
            check_complete!(c, rc, len);
            let p = lc::parse_partial::<$t>(s);
            let rp = $reff(s, 10, <$t>::SIGNED, <$t>::MAX_POS, <$t>::MAX_NEG, true);
            check_partial!(p, rp, len);
            kani::cover!(matches!(c, Ok(v) if v == <$t>::MAX), "MAX parsed");
            kani::cover!(matches!(c, Err(Error::Overflow(i)) if i + 1 == len), "overflow at last digit");
            kani::cover!(matches!(c, Err(Error::Overflow(i)) if i + 1 < len), "overflow before last digit");
            kani::cover!(c.is_ok() && z == 2 && ntail == 6, "accepted with leading zeros");
            if <$t>::SIGNED {
                kani::cover!(matches!(c, Ok(v) if v == <$t>::MIN), "MIN parsed");
                kani::cover!(matches!(c, Err(Error::Underflow(_))), "underflow");
            }
        }
    };
}
// u32::MAX = 4294967295, i32: 2147483647/8
k2w!(k2w_u32, u32, ref_int_u64, b"4294", 4, 14, 16);
k2w!(k2w_i32, i32, ref_int_u64, b"2147", 4, 14, 16);
// u64::MAX = 18446744073709551615 ; i64::MAX = 9223372036854775807
k2w!(k2w_u64, u64, ref_int_u128, b"18446744073709", 14, 24, 26);
k2w!(k2w_i64, i64, ref_int_u128, b"9223372036854", 13, 23, 25);
k2w!(k2w_usize, usize, ref_int_u128, b"18446744073709", 14, 24, 26);
k2w!(k2w_isize, isize, ref_int_u128, b"9223372036854", 13, 23, 25);
// u128::MAX = 340282366920938463463374607431768211455 (39 digits)
// i128::MAX = 170141183460469231731687303715884105727
k2w!(k2w_u128, u128, ref_int_u128, b"340282366920938463463374607431768", 33, 43, 45);
k2w!(k2w_i128, i128, ref_int_u128, b"170141183460469231731687303715884", 33, 43, 45);

/// K4: other radices (features power-of-two / radix).
#[cfg(feature = "power-of-two")]
mod radix {
    use super::*;
    macro_rules! k4 {
        ($name:ident, $t:ty, $reff:ident, $n:expr, $u:literal, $radix:expr) => {
            #[kani::proof]
            #[kani::unwind($u)]
            fn $name() {
                const FMT: u128 = NumberFormatBuilder::from_radix($radix);
                const OPTS: ParseIntegerOptions = ParseIntegerOptions::new();
                let buf: [u8; $n] = kani::any();
                let len: usize = kani::any();
                kani::assume(len <= $n);
                let s = &buf[..len];
                let c = lc::parse_with_options::<$t, FMT>(s, &OPTS);
                let p = lc::parse_partial_with_options::<$t, FMT>(s, &OPTS);
                let rc = $reff(s, $radix, <$t>::SIGNED, <$t>::MAX_POS, <$t>::MAX_NEG, false);
                let rp = $reff(s, $radix, <$t>::SIGNED, <$t>::MAX_POS, <$t>::MAX_NEG, true);
                check_complete!(c, rc, len);
                check_partial!(p, rp, len);
                kani::cover!(c.is_ok() && len == $n, "accepted full-length input");
                kani::cover!(matches!(c, Err(Error::InvalidDigit(i)) if i > 0), "invalid digit");
            }
        };
    }
    // power-of-two radices (feature P)
    k4!(k4_u8_r2_9, u8, ref_int_u64, 9, 11, 2);
    k4!(k4_u8_r2_6, u8, ref_int_u64, 6, 8, 2);
    k4!(k4_i8_r2_9, i8, ref_int_u64, 9, 11, 2);
    k4!(k4_u16_r16_5, u16, ref_int_u64, 5, 7, 16);
    k4!(k4_i16_r16_5, i16, ref_int_u64, 5, 7, 16);
    k4!(k4_u32_r8_5, u32, ref_int_u64, 5, 7, 8);
    k4!(k4_u32_r16_5, u32, ref_int_u64, 5, 7, 16);
    k4!(k4_u8_r4_5, u8, ref_int_u64, 5, 7, 4);
    k4!(k4_i16_r32_5, i16, ref_int_u64, 5, 7, 32);
    k4!(k4_u64_r16_5, u64, ref_int_u128, 5, 7, 16);
    k4!(k4_i64_r2_5, i64, ref_int_u128, 5, 7, 2);

    // overflow frontiers for radices where `overflow_digits` matters
    k2!(k2_u8_r16_4, u8, ref_int_u64, 4, 6, 16, NumberFormatBuilder::from_radix(16));
    k2!(k2_i8_r16_4, i8, ref_int_u64, 4, 6, 16, NumberFormatBuilder::from_radix(16));
    k2!(k2_u16_r16_6, u16, ref_int_u64, 6, 8, 16, NumberFormatBuilder::from_radix(16));
    k2!(k2_i16_r16_6, i16, ref_int_u64, 6, 8, 16, NumberFormatBuilder::from_radix(16));
    k2!(k2_u8_r2_10, u8, ref_int_u64, 10, 12, 2, NumberFormatBuilder::from_radix(2));
    k2!(k2_i8_r2_10, i8, ref_int_u64, 10, 12, 2, NumberFormatBuilder::from_radix(2));
    k2!(k2_u16_r8_8, u16, ref_int_u64, 8, 10, 8, NumberFormatBuilder::from_radix(8));
    k2!(k2_u32_r16_10, u32, ref_int_u64, 10, 12, 16, NumberFormatBuilder::from_radix(16));
    k2!(k2_i32_r16_10, i32, ref_int_u64, 10, 12, 16, NumberFormatBuilder::from_radix(16));

    #[cfg(feature = "radix")]
    mod generic {
        use super::*;
        macro_rules! k4all {
            ($($r:literal => $a:ident $b:ident $c:ident $d:ident;)*) => {$(
                k4!($a, u8, ref_int_u64, 4, 6, $r);
                k4!($b, i16, ref_int_u64, 5, 7, $r);
                k2!($c, u8, ref_int_u64, 4, 6, $r, NumberFormatBuilder::from_radix($r));
                k2!($d, i16, ref_int_u64, 6, 8, $r, NumberFormatBuilder::from_radix($r));
            )*};
        }
        k4all! {
            3 => k4_u8_r3 k4_i16_r3 k2_u8_r3 k2_i16_r3;
            5 => k4_u8_r5 k4_i16_r5 k2_u8_r5 k2_i16_r5;
            6 => k4_u8_r6 k4_i16_r6 k2_u8_r6 k2_i16_r6;
            7 => k4_u8_r7 k4_i16_r7 k2_u8_r7 k2_i16_r7;
            9 => k4_u8_r9 k4_i16_r9 k2_u8_r9 k2_i16_r9;
            10 => k4_u8_r10 k4_i16_r10 k2_u8_r10 k2_i16_r10;
            11 => k4_u8_r11 k4_i16_r11 k2_u8_r11 k2_i16_r11;
            12 => k4_u8_r12 k4_i16_r12 k2_u8_r12 k2_i16_r12;
            13 => k4_u8_r13 k4_i16_r13 k2_u8_r13 k2_i16_r13;
            14 => k4_u8_r14 k4_i16_r14 k2_u8_r14 k2_i16_r14;
            15 => k4_u8_r15 k4_i16_r15 k2_u8_r15 k2_i16_r15;
            17 => k4_u8_r17 k4_i16_r17 k2_u8_r17 k2_i16_r17;
            18 => k4_u8_r18 k4_i16_r18 k2_u8_r18 k2_i16_r18;
            19 => k4_u8_r19 k4_i16_r19 k2_u8_r19 k2_i16_r19;
            20 => k4_u8_r20 k4_i16_r20 k2_u8_r20 k2_i16_r20;
            21 => k4_u8_r21 k4_i16_r21 k2_u8_r21 k2_i16_r21;
            22 => k4_u8_r22 k4_i16_r22 k2_u8_r22 k2_i16_r22;
            23 => k4_u8_r23 k4_i16_r23 k2_u8_r23 k2_i16_r23;
            24 => k4_u8_r24 k4_i16_r24 k2_u8_r24 k2_i16_r24;
            25 => k4_u8_r25 k4_i16_r25 k2_u8_r25 k2_i16_r25;
            26 => k4_u8_r26 k4_i16_r26 k2_u8_r26 k2_i16_r26;
            27 => k4_u8_r27 k4_i16_r27 k2_u8_r27 k2_i16_r27;
            28 => k4_u8_r28 k4_i16_r28 k2_u8_r28 k2_i16_r28;
            29 => k4_u8_r29 k4_i16_r29 k2_u8_r29 k2_i16_r29;
            30 => k4_u8_r30 k4_i16_r30 k2_u8_r30 k2_i16_r30;
            31 => k4_u8_r31 k4_i16_r31 k2_u8_r31 k2_i16_r31;
            33 => k4_u8_r33 k4_i16_r33 k2_u8_r33 k2_i16_r33;
            34 => k4_u8_r34 k4_i16_r34 k2_u8_r34 k2_i16_r34;
            35 => k4_u8_r35 k4_i16_r35 k2_u8_r35 k2_i16_r35;
            36 => k4_u8_r36 k4_i16_r36 k2_u8_r36 k2_i16_r36;
        }
        k4!(k4_u32_r36_5, u32, ref_int_u64, 5, 7, 36);
        k4!(k4_u32_r7_5, u32, ref_int_u64, 5, 7, 7);
        k2!(k2_u32_r36_9, u32, ref_int_u64, 9, 11, 36, NumberFormatBuilder::from_radix(36));
        k2!(k2_i32_r17_10, i32, ref_int_u64, 10, 12, 17, NumberFormatBuilder::from_radix(17));
    }
}

/// S1 (in Kani): the SWAR digit kernels over *all* 32-bit / 64-bit words.
mod swar {
    use super::*;
    use lexical_parse_integer::algorithm::{is_4digits, is_8digits, parse_4digits, parse_8digits};

    macro_rules! swar4 {
        ($name:ident, $radix:expr, $fmt:expr) => {
            #[kani::proof]
            fn $name() {
                const FMT: u128 = $fmt;
                let v: u32 = kani::any();
                let b = v.to_le_bytes();
                let mut all = true;
                let mut val: u32 = 0;
                let mut k = 0;
                while k < 4 {
                    let c = b[k];
                    if c >= b'0' && (c as u32) < b'0' as u32 + $radix {
                        val = val * $radix + (c - b'0') as u32;
                    } else {
                        all = false;
                    }
                    k += 1;
                }
                let got = is_4digits::<FMT>(v);
                assert!(got == all, "is_4digits disagrees with the byte-wise test");
                if all {
                    assert!(parse_4digits::<FMT>(v) == val, "parse_4digits value");
                }
                kani::cover!(all, "four digits");
                kani::cover!(!all, "not four digits");
            }
        };
    }
    macro_rules! swar8 {
        ($name:ident, $radix:expr, $fmt:expr) => {
            #[kani::proof]
            fn $name() {
                const FMT: u128 = $fmt;
                let v: u64 = kani::any();
                let b = v.to_le_bytes();
                let mut all = true;
                let mut val: u64 = 0;
                let mut k = 0;
                while k < 8 {
                    let c = b[k];
                    if c >= b'0' && (c as u64) < b'0' as u64 + $radix {
                        val = val * $radix + (c - b'0') as u64;
                    } else {
                        all = false;
                    }
                    k += 1;
                }
                let got = is_8digits::<FMT>(v);
                assert!(got == all, "is_8digits disagrees with the byte-wise test");
                if all {
                    assert!(parse_8digits::<FMT>(v) == val, "parse_8digits value");
                }
                kani::cover!(all, "eight digits");
                kani::cover!(!all, "not eight digits");
            }
        };
    }
    swar4!(swar4_r10, 10, STANDARD);
    swar8!(swar8_r10, 10, STANDARD);
    #[cfg(feature = "radix")]
    mod r {
        use super::*;
        swar4!(swar4_r2, 2, NumberFormatBuilder::from_radix(2));
        swar4!(swar4_r3, 3, NumberFormatBuilder::from_radix(3));
        swar4!(swar4_r4, 4, NumberFormatBuilder::from_radix(4));
        swar4!(swar4_r5, 5, NumberFormatBuilder::from_radix(5));
        swar4!(swar4_r6, 6, NumberFormatBuilder::from_radix(6));
        swar4!(swar4_r7, 7, NumberFormatBuilder::from_radix(7));
        swar4!(swar4_r8, 8, NumberFormatBuilder::from_radix(8));
        swar4!(swar4_r9, 9, NumberFormatBuilder::from_radix(9));
        swar8!(swar8_r2, 2, NumberFormatBuilder::from_radix(2));
        swar8!(swar8_r3, 3, NumberFormatBuilder::from_radix(3));
        swar8!(swar8_r4, 4, NumberFormatBuilder::from_radix(4));
        swar8!(swar8_r5, 5, NumberFormatBuilder::from_radix(5));
        swar8!(swar8_r6, 6, NumberFormatBuilder::from_radix(6));
        swar8!(swar8_r7, 7, NumberFormatBuilder::from_radix(7));
        swar8!(swar8_r8, 8, NumberFormatBuilder::from_radix(8));
        swar8!(swar8_r9, 9, NumberFormatBuilder::from_radix(9));
    }
}

/// R1 (C11): partial and complete integer parsers agree.
macro_rules! r1 {
    ($name:ident, $t:ty, $n:expr, $u:literal) => {
        #[kani::proof]
        #[kani::unwind($u)]
        fn $name() {
            let buf: [u8; $n] = kani::any();
            let len: usize = kani::any();
            kani::assume(len <= $n);
            let s = &buf[..len];
            let c = lc::parse::<$t>(s);
            let p = lc::parse_partial::<$t>(s);
            match (c, p) {
                (Ok(v), Ok((w, n))) => {
                    assert!(n == len, "complete accepted but partial stopped early");
                    assert!(v == w, "complete and partial values differ");
                },
                (Ok(_), Err(_)) => assert!(false, "complete accepted, partial rejected"),
                (Err(_), Ok((_, n))) => assert!(n != len, "partial consumed everything, complete rejected"),
                (Err(_), Err(_)) => {},
            }
            if let Ok((w, n)) = p {
                if n > 0 && n < len {
                    let c2 = lc::parse::<$t>(&s[..n]);
                    match c2 {
                        Ok(v2) => assert!(v2 == w, "prefix re-parse value differs"),
                        Err(_) => assert!(false, "prefix accepted by the partial parser is rejected by the complete parser"),
                    }
                    kani::cover!(true, "prefix re-parse exercised");
                }
            }
            kani::cover!(c.is_ok() && len == $n, "complete accepts");
        }
    };
}
r1!(r1_u8_4, u8, 4, 6);
r1!(r1_i8_4, i8, 4, 6);
r1!(r1_u16_4, u16, 4, 6);
r1!(r1_i16_4, i16, 4, 6);
r1!(r1_u32_4, u32, 4, 6);
r1!(r1_i32_4, i32, 4, 6);
r1!(r1_u64_4, u64, 4, 6);
r1!(r1_i64_4, i64, 4, 6);
r1!(r1_u128_4, u128, 4, 6);
r1!(r1_i128_4, i128, 4, 6);
r1!(r1_u8_3, u8, 3, 5);
r1!(r1_i8_3, i8, 3, 5);
r1!(r1_i32_3, i32, 3, 5);
r1!(r1_u64_3, u64, 3, 5);
