//! C06: power-of-two radix float output is exact (one binade per harness: the binary exponent is
//! concrete so every fill/loop length is concrete; the 23-bit mantissa is symbolic).
use crate::refs::*;
use lexical_core as lc;
use lexical_core::NumberFormatBuilder;
use lexical_core::WriteFloatOptions;

/// Decode `digits [. digits] [^ [-] digits]` in `radix` (power of two, `bits` per digit): returns
/// (mantissa digits as integer, number of fraction digits, exponent) or None.
fn decode_pow2(out: &[u8], radix: u32, expc: u8, exp_radix: u32) -> Option<(u128, i32, i32)> {
    let mut i = 0usize;
    let mut m: u128 = 0;
    let mut nf: i32 = 0;
    let mut seen_dot = false;
    let mut nd = 0;
    while i < out.len() && out[i] != expc {
        let c = out[i];
        if c == b'.' {
            if seen_dot {
                return None;
            }
            seen_dot = true;
        } else {
            let d = match digit(c, radix) {
                Some(d) => d,
                None => return None,
            };
            if c >= b'a' {
                return None; // upper-case digits only
            }
            if m >> 120 != 0 {
                return None;
            }
            m = m * radix as u128 + d as u128;
            nd += 1;
            if seen_dot {
                nf += 1;
            }
        }
        i += 1;
    }
    if nd == 0 {
        return None;
    }
    let mut e: i32 = 0;
    if i < out.len() {
        i += 1;
        let mut neg = false;
        if i < out.len() && out[i] == b'-' {
            neg = true;
            i += 1;
        }
        let mut n = 0;
        while i < out.len() {
            let d = match digit(out[i], exp_radix) {
                Some(d) => d,
                None => return None,
            };
            e = e * exp_radix as i32 + d as i32;
            n += 1;
            i += 1;
        }
        if n == 0 {
            return None;
        }
        if neg {
            e = -e;
        }
    }
    Some((m, nf, e))
}

macro_rules! binw {
    ($name:ident, $radix:expr, $bits:expr, $e:expr, $u:literal) => {
        #[kani::proof]
        #[kani::unwind($u)]
        fn $name() {
            const FMT: u128 = NumberFormatBuilder::from_radix($radix);
            let opts = WriteFloatOptions::from_radix($radix);
            let frac: u32 = kani::any();
            kani::assume(frac < (1 << 23));
            let e: u32 = $e;
            kani::assume(e != 0 || frac != 0);
            let f = f32::from_bits((e << 23) | frac);
            let mut buf = [0u8; 256];
            let out = lc::write_with_options::<f32, FMT>(f, &mut buf, &opts);
            let n = out.len();
            let mut k = 0;
            while k < n {
                assert!(out[k] < 0x80);
                k += 1;
            }
            let dec = decode_pow2(out, $radix, b'^', $radix);
            assert!(dec.is_some(), "output is not digits[.digits][^[-]digits] in the radix");
            let (mant, nf, ex) = dec.unwrap();
            // float = m * 2^e2 exactly
            let (m, e2): (u128, i32) = if e == 0 { (frac as u128, -149) } else { ((frac | (1 << 23)) as u128, e as i32 - 150) };
            // written value = mant * radix^(ex - nf) = mant * 2^(bits*(ex-nf))
            let t = e2 - $bits * (ex - nf);
            assert!(t > -100 && t < 100, "exponent far from the float's");
            if t >= 0 {
                assert!(mant == m << t, "written digits do not denote the float exactly");
            } else {
                assert!(mant << (-t) == m, "written digits do not denote the float exactly");
            }
            kani::cover!(ex != 0, "exponent notation");
            kani::cover!(nf > 3, "several fraction digits");
        }
    };
}
binw!(w16_f32_e127, 16, 4, 127, 70);
binw!(w16_f32_e150, 16, 4, 150, 70);
binw!(w16_f32_e120, 16, 4, 120, 70);
binw!(w16_f32_e1, 16, 4, 1, 70);
binw!(w16_f32_e0, 16, 4, 0, 70);
binw!(w16_f32_e254, 16, 4, 254, 70);
binw!(w2_f32_e127, 2, 1, 127, 70);
binw!(w2_f32_e130, 2, 1, 130, 70);
binw!(w8_f32_e127, 8, 3, 127, 70);
binw!(w8_f32_e128, 8, 3, 128, 70);
binw!(w8_f32_e129, 8, 3, 129, 70);
binw!(w32_f32_e127, 32, 5, 127, 70);
binw!(w4_f32_e126, 4, 2, 126, 70);
