//! C18: format and options validation is sound and complete.
//!
//! The packed format is a fully symbolic u128 (all 2^128 words); the reference
//! predicate below is transcribed from the documented constraints, per feature set.
use crate::refs::*;
use lexical_core as lc;
use lexical_core::Error;
use lexical_util::format as lf;
use lexical_util::format::NumberFormatBuilder;

fn ref_valid_radix(r: u32) -> bool {
    if cfg!(feature = "radix") {
        r >= 2 && r <= 36
    } else if cfg!(feature = "power-of-two") {
        r == 2 || r == 4 || r == 8 || r == 10 || r == 16 || r == 32
    } else {
        r == 10
    }
}

fn ref_ascii_punct(c: u8) -> bool {
    (c >= 0x09 && c <= 0x0d) || (c >= 0x20 && c < 0x7f)
}

/// An optional punctuation byte: 0 (absent), or printable ASCII that is neither a
/// sign nor a digit of the larger of the two digit radices.
fn ref_opt_punct(c: u8, mradix: u32, eradix: u32) -> bool {
    if c == 0 {
        return true;
    }
    let r = if mradix > eradix { mradix } else { eradix };
    ref_ascii_punct(c) && c != b'+' && c != b'-' && digit(c, r).is_none()
}

struct Fields {
    flags: u64,
    sep: u8,
    prefix: u8,
    suffix: u8,
    mradix: u32,
    ebase: u32,
    eradix: u32,
}

fn fields(f: u128) -> Fields {
    let mradix = ((f >> 104) & 0xff) as u32;
    let eb = ((f >> 112) & 0xff) as u32;
    let er = ((f >> 120) & 0xff) as u32;
    Fields {
        flags: f as u64,
        sep: ((f >> 64) & 0xff) as u8,
        prefix: ((f >> 88) & 0xff) as u8,
        suffix: ((f >> 96) & 0xff) as u8,
        mradix,
        ebase: if eb == 0 { mradix } else { eb },
        eradix: if er == 0 { mradix } else { er },
    }
}

const fn bit(n: u32) -> u64 {
    1u64 << n
}

/// Documented validity of a packed format.
fn ref_format_valid(f: u128) -> bool {
    let x = fields(f);
    if !ref_valid_radix(x.mradix) || !ref_valid_radix(x.ebase) || !ref_valid_radix(x.eradix) {
        return false;
    }
    // punctuation
    if cfg!(feature = "format") {
        if !ref_opt_punct(x.sep, x.mradix, x.eradix) {
            return false;
        }
    } else if x.sep != 0 {
        return false;
    }
    if cfg!(all(feature = "format", feature = "power-of-two")) {
        if !ref_opt_punct(x.prefix, x.mradix, x.eradix) || !ref_opt_punct(x.suffix, x.mradix, x.eradix) {
            return false;
        }
    } else if x.prefix != 0 || x.suffix != 0 {
        return false;
    }
    // distinct
    if x.sep != 0 && (x.sep == x.prefix || x.sep == x.suffix) {
        return false;
    }
    if x.prefix != 0 && x.prefix == x.suffix {
        return false;
    }
    let fl = x.flags;
    if !cfg!(feature = "format") {
        // only the default syntax: required exponent digits + required mantissa digits
        let all_flags: u64 = 0x3ffff | (0x1fffu64 << 32);
        return fl & all_flags == (bit(2) | bit(3));
    }
    // contradictory pairs
    if fl & bit(6) != 0 && fl & bit(14) != 0 {
        return false; // no exponent notation + required exponent notation
    }
    if fl & bit(4) != 0 && fl & bit(5) != 0 {
        return false; // no positive mantissa sign + required mantissa sign
    }
    if fl & bit(7) != 0 && fl & bit(8) != 0 {
        return false; // no positive exponent sign + required exponent sign
    }
    if fl & bit(10) != 0 && (fl & bit(11) != 0 || fl & bit(44) != 0) {
        return false; // no special + case-sensitive special / special digit separator
    }
    // consecutive-separator flags need a position flag in the same component
    let comp = |internal: u32, leading: u32, trailing: u32, consecutive: u32| -> bool {
        fl & bit(consecutive) == 0 || fl & (bit(internal) | bit(leading) | bit(trailing)) != 0
    };
    comp(32, 35, 38, 41) && comp(33, 36, 39, 42) && comp(34, 37, 40, 43)
}

/// V1: `valid <=> documented predicate`, all 2^128 packed formats.
#[kani::proof]
fn v1_format_error_all_words() {
    let f: u128 = kani::any();
    let got = lf::verif_format_error(f);
    let valid = matches!(got, Error::Success);
    let want = ref_format_valid(f);
    assert!(valid == want, "format validity disagrees with the documented constraints");
    // the error is a configuration error (never positional)
    assert!(got.index().is_none());
    kani::cover!(valid, "some valid format");
    kani::cover!(!valid, "some invalid format");
    if cfg!(feature = "format") {
        kani::cover!(valid && (f >> 64) as u8 != 0, "valid format with a digit separator");
    }
    if cfg!(all(feature = "format", feature = "power-of-two")) {
        kani::cover!(matches!(got, Error::InvalidPunctuation), "punctuation clash");
    }
}

/// V2: `build_strict` panics exactly for the invalid ones; rebuild round-trips.
#[kani::proof]
fn v2_rebuild_roundtrip() {
    let f: u128 = kani::any();
    kani::assume(ref_format_valid(f));
    let g = NumberFormatBuilder::rebuild(f).build_unchecked();
    // the rebuilt format is valid and denotes the same format: same radices, same
    // punctuation (a separator byte without separator flags is inert and may be dropped), same flags
    assert!(matches!(lf::verif_format_error(g), Error::Success), "rebuild of a valid format is invalid");
    let a = fields(f);
    let b = fields(g);
    assert!(a.mradix == b.mradix && a.ebase == b.ebase && a.eradix == b.eradix, "radix fields");
    assert!(a.prefix == b.prefix && a.suffix == b.suffix, "base prefix/suffix");
    let known: u64 = 0x3ffff | (0x1fffu64 << 32);
    assert!(a.flags & known == b.flags & known, "flags");
    let sep_flags: u64 = 0x1fffu64 << 32;
    if a.flags & sep_flags != 0 {
        assert!(a.sep == b.sep, "digit separator");
    }
    // idempotent
    let h = NumberFormatBuilder::rebuild(g).build_unchecked();
    assert!(h == g, "rebuild is idempotent");
    // build_strict accepts it (no panic) and returns the same word
    let s = NumberFormatBuilder::rebuild(g).build_strict();
    assert!(s == g);
    kani::cover!(g != f, "normalised");
    if cfg!(feature = "format") {
        kani::cover!(a.sep != 0 && a.flags & sep_flags != 0, "with separator");
    }
}

#[kani::proof]
#[kani::should_panic]
fn v2_build_strict_panics_on_invalid() {
    let f: u128 = kani::any();
    let g = NumberFormatBuilder::rebuild(f).build_unchecked();
    kani::assume(!ref_format_valid(g));
    let _ = NumberFormatBuilder::rebuild(g).build_strict();
}

/// V3: punctuation options: `is_valid_options_punctuation` for symbolic format,
/// exponent and decimal point.
#[kani::proof]
fn v3_options_punctuation() {
    let f: u128 = kani::any();
    kani::assume(ref_format_valid(f));
    let e: u8 = kani::any();
    let d: u8 = kani::any();
    let got = lf::is_valid_options_punctuation(f, e, d);
    let x = fields(f);
    let ok = |c: u8| c != 0 && ref_opt_punct(c, x.mradix, x.eradix);
    let mut want = ok(e) && ok(d) && e != d;
    if cfg!(feature = "format") {
        want = want && x.sep != e && x.sep != d && x.prefix != e && x.prefix != d && x.suffix != e && x.suffix != d;
    }
    assert!(got == want, "options punctuation validity");
    kani::cover!(got, "valid punctuation");
    kani::cover!(!got && ok(e) && ok(d), "rejected for clashing");
}

/// V4: each getter reflects the setter (symbolic builder through the public setters).
#[cfg(feature = "format")]
#[kani::proof]
fn v4_getters_reflect_setters() {
    use core::num::NonZeroU8;
    let b: [bool; 31] = kani::any();
    let sep: u8 = kani::any();
    let mut bl = NumberFormatBuilder::new()
        .digit_separator(NonZeroU8::new(sep))
        .required_integer_digits(b[0])
        .required_fraction_digits(b[1])
        .required_exponent_digits(b[2])
        .required_mantissa_digits(b[3])
        .no_positive_mantissa_sign(b[4])
        .required_mantissa_sign(b[5])
        .no_exponent_notation(b[6])
        .no_positive_exponent_sign(b[7])
        .required_exponent_sign(b[8])
        .no_exponent_without_fraction(b[9])
        .no_special(b[10])
        .case_sensitive_special(b[11])
        .no_integer_leading_zeros(b[12])
        .no_float_leading_zeros(b[13])
        .required_exponent_notation(b[14])
        .case_sensitive_exponent(b[15])
        .integer_internal_digit_separator(b[18])
        .fraction_internal_digit_separator(b[19])
        .exponent_internal_digit_separator(b[20])
        .integer_leading_digit_separator(b[21])
        .fraction_leading_digit_separator(b[22])
        .exponent_leading_digit_separator(b[23])
        .integer_trailing_digit_separator(b[24])
        .fraction_trailing_digit_separator(b[25])
        .exponent_trailing_digit_separator(b[26])
        .integer_consecutive_digit_separator(b[27])
        .fraction_consecutive_digit_separator(b[28])
        .exponent_consecutive_digit_separator(b[29])
        .special_digit_separator(b[30]);
    let f = bl.build_unchecked();
    let x = fields(f);
    let fl = x.flags;
    let bits: [(usize, u32); 29] = [
        (0, 0), (1, 1), (2, 2), (3, 3), (4, 4), (5, 5), (6, 6), (7, 7), (8, 8), (9, 9), (10, 10), (11, 11),
        (12, 12), (13, 13), (14, 14), (15, 15), (18, 32), (19, 33), (20, 34), (21, 35), (22, 36), (23, 37),
        (24, 38), (25, 39), (26, 40), (27, 41), (28, 42), (29, 43), (30, 44),
    ];
    let mut k = 0;
    while k < 29 {
        let (bi, pos) = bits[k];
        assert!((fl & bit(pos) != 0) == b[bi], "flag getter differs from setter");
        k += 1;
    }
    let any_sep = b[18] || b[19] || b[20] || b[21] || b[22] || b[23] || b[24] || b[25] || b[26] || b[27] || b[28] || b[29] || b[30];
    if any_sep {
        assert!(x.sep == sep, "digit separator getter differs from setter");
    }
    assert!(x.mradix == 10);
    // getters of the builder agree as well
    assert!(bl.get_required_integer_digits() == b[0]);
    assert!(bl.get_no_special() == b[10]);
    assert!(bl.get_digit_separator() == NonZeroU8::new(sep));
    kani::cover!(any_sep && sep != 0, "separator set");
}
