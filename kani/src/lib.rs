//! Kani proof harnesses over the real rust-lexical crates in /repo.
//!
//! Every harness lives behind `cfg(kani)`; native builds of this crate
//! (used for replays) only see the reference models in `refs`.
#![allow(unused, clippy::all)]

pub mod refs;

#[cfg(kani)]
mod c04;
#[cfg(kani)]
mod smoke;
