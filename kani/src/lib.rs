//! Kani proof harnesses over the real rust-lexical crates in /repo.
//!
//! Every harness lives behind `cfg(kani)`; native builds of this crate
//! (used for replays) only see the reference models in `refs`.
#![allow(unused, clippy::all)]

pub mod refs;

#[cfg(kani)]
mod c04;
#[cfg(kani)]
mod c18;
#[cfg(kani)]
mod c01;
#[cfg(kani)]
mod c08;
#[cfg(all(kani, feature = "format"))]
mod c12;
#[cfg(all(kani, feature = "power-of-two"))]
mod c05;
#[cfg(all(kani, feature = "power-of-two"))]
mod c06;
#[cfg(all(kani, not(feature = "compact")))]
mod wf;
#[cfg(all(kani, feature = "format"))]
mod c13;
#[cfg(kani)]
mod c15;
#[cfg(all(kani, feature = "std"))]
mod c17;
#[cfg(kani)]
pub(crate) mod pf;
#[cfg(kani)]
mod c03;
#[cfg(kani)]
mod smoke;
