//! Reference models: short, obviously-correct implementations of what the
//! properties state, written without looking at how lexical does it.

/// Digit value of an ASCII byte in `radix` (2..=36), letters in either case.
#[inline]
pub fn digit(c: u8, radix: u32) -> Option<u32> {
    let d = if c >= b'0' && c <= b'9' {
        (c - b'0') as u32
    } else if c >= b'a' && c <= b'z' {
        (c - b'a') as u32 + 10
    } else if c >= b'A' && c <= b'Z' {
        (c - b'A') as u32 + 10
    } else {
        return None;
    };
    if d < radix {
        Some(d)
    } else {
        None
    }
}

/// Result of the reference integer parser, as sign + magnitude.
#[derive(Clone, Copy, PartialEq, Eq, Debug)]
pub enum RefInt<W> {
    /// value (negative?, magnitude), bytes consumed
    Ok(bool, W, usize),
    Empty(usize),
    InvalidDigit(usize),
    Overflow(usize),
    Underflow(usize),
}

macro_rules! ref_int_impl {
    ($name:ident, $w:ty) => {
        /// Left-to-right reference scan. `partial`: stop at the first non-digit.
        /// `max_pos`/`max_neg`: largest magnitude for a non-negative/negative value.
        pub fn $name(
            s: &[u8],
            radix: u32,
            signed: bool,
            max_pos: $w,
            max_neg: $w,
            partial: bool,
        ) -> RefInt<$w> {
            let mut i = 0usize;
            let mut neg = false;
            if i < s.len() && s[i] == b'+' {
                i += 1;
            } else if i < s.len() && s[i] == b'-' && signed {
                neg = true;
                i += 1;
            }
            if i == s.len() {
                return RefInt::Empty(i);
            }
            let limit = if neg { max_neg } else { max_pos };
            let mut v: $w = 0;
            while i < s.len() {
                let d = match digit(s[i], radix) {
                    Some(d) => d as $w,
                    None => {
                        if partial {
                            return RefInt::Ok(neg && v != 0, v, i);
                        }
                        return RefInt::InvalidDigit(i);
                    },
                };
                let nv = match v.checked_mul(radix as $w) {
                    Some(x) => x.checked_add(d),
                    None => None,
                };
                match nv {
                    Some(x) if x <= limit => v = x,
                    _ => {
                        return if neg {
                            RefInt::Underflow(i)
                        } else {
                            RefInt::Overflow(i)
                        }
                    },
                }
                i += 1;
            }
            RefInt::Ok(neg && v != 0, v, i)
        }
    };
}
ref_int_impl!(ref_int_u64, u64);
ref_int_impl!(ref_int_u128, u128);

/// Sign/magnitude view of the integer types under test.
pub trait SignMag: Copy {
    type W: Copy + PartialEq;
    const SIGNED: bool;
    const MAX_POS: Self::W;
    const MAX_NEG: Self::W;
    fn sign_mag(self) -> (bool, Self::W);
}
macro_rules! signmag_u {
    ($($t:ty, $w:ty);*) => {$(
        impl SignMag for $t {
            type W = $w;
            const SIGNED: bool = false;
            const MAX_POS: $w = <$t>::MAX as $w;
            const MAX_NEG: $w = 0;
            #[inline] fn sign_mag(self) -> (bool, $w) { (false, self as $w) }
        }
    )*};
}
macro_rules! signmag_i {
    ($($t:ty, $w:ty);*) => {$(
        impl SignMag for $t {
            type W = $w;
            const SIGNED: bool = true;
            const MAX_POS: $w = <$t>::MAX as $w;
            const MAX_NEG: $w = <$t>::MAX as $w + 1;
            #[inline] fn sign_mag(self) -> (bool, $w) { (self < 0, self.unsigned_abs() as $w) }
        }
    )*};
}
signmag_u!(u8, u64; u16, u64; u32, u64; u64, u128; u128, u128; usize, u128);
signmag_i!(i8, u64; i16, u64; i32, u64; i64, u128; i128, u128; isize, u128);
