//! Reference models: short, obviously-correct implementations of what the
//! properties state, written without looking at how lexical does it.

/// Digit value of an ASCII byte in `radix` (2..=36), letters in either case.
#[inline]
pub fn digit(c: u8, radix: u32) -> Option<u32> {
    let d = if c >= b'0' && c <= b'9' {
        (c - b'0') as u32
    } else if c >= b'a' && c <= b'z' {
        (c - b'a') as u32 + 10
    } else if c >= b'A' && c <= b'Z' {
        (c - b'A') as u32 + 10
    } else {
        return None;
    };
    if d < radix {
        Some(d)
    } else {
        None
    }
}

/// Result of the reference integer parser, as sign + magnitude.
#[derive(Clone, Copy, PartialEq, Eq, Debug)]
pub enum RefInt<W> {
    /// value (negative?, magnitude), bytes consumed
    Ok(bool, W, usize),
    Empty(usize),
    InvalidDigit(usize),
    Overflow(usize),
    Underflow(usize),
}

macro_rules! ref_int_impl {
    ($name:ident, $w:ty) => {
        /// Left-to-right reference scan. `partial`: stop at the first non-digit.
        /// `max_pos`/`max_neg`: largest magnitude for a non-negative/negative value.
        pub fn $name(
            s: &[u8],
            radix: u32,
            signed: bool,
            max_pos: $w,
            max_neg: $w,
            partial: bool,
        ) -> RefInt<$w> {
            let mut i = 0usize;
            let mut neg = false;
            if i < s.len() && s[i] == b'+' {
                i += 1;
            } else if i < s.len() && s[i] == b'-' && signed {
                neg = true;
                i += 1;
            }
            if i == s.len() {
                return RefInt::Empty(i);
            }
            let limit = if neg { max_neg } else { max_pos };
            let after_sign = i;
            let mut v: $w = 0;
            while i < s.len() {
                let d = match digit(s[i], radix) {
                    Some(d) => d as $w,
                    None => {
                        if partial {
                            // "Empty when no digit follows the optional sign": a consumed sign
                            // without digits is not a number (without a sign the partial parser
                            // reports zero bytes consumed).
                            if i == after_sign && after_sign != 0 {
                                return RefInt::Empty(i);
                            }
                            return RefInt::Ok(neg && v != 0, v, i);
                        }
                        return RefInt::InvalidDigit(i);
                    },
                };
                let nv = match v.checked_mul(radix as $w) {
                    Some(x) => x.checked_add(d),
                    None => None,
                };
                match nv {
                    Some(x) if x <= limit => v = x,
                    _ => {
                        return if neg {
                            RefInt::Underflow(i)
                        } else {
                            RefInt::Overflow(i)
                        }
                    },
                }
                i += 1;
            }
            RefInt::Ok(neg && v != 0, v, i)
        }
    };
}
ref_int_impl!(ref_int_u64, u64);
ref_int_impl!(ref_int_u128, u128);

/// Sign/magnitude view of the integer types under test.
pub trait SignMag: Copy {
    type W: Copy + PartialEq;
    const SIGNED: bool;
    const MAX_POS: Self::W;
    const MAX_NEG: Self::W;
    fn sign_mag(self) -> (bool, Self::W);
}
macro_rules! signmag_u {
    ($($t:ty, $w:ty);*) => {$(
        impl SignMag for $t {
            type W = $w;
            const SIGNED: bool = false;
            const MAX_POS: $w = <$t>::MAX as $w;
            const MAX_NEG: $w = 0;
            #[inline] fn sign_mag(self) -> (bool, $w) { (false, self as $w) }
        }
    )*};
}
macro_rules! signmag_i {
    ($($t:ty, $w:ty);*) => {$(
        impl SignMag for $t {
            type W = $w;
            const SIGNED: bool = true;
            const MAX_POS: $w = <$t>::MAX as $w;
            const MAX_NEG: $w = <$t>::MAX as $w + 1;
            #[inline] fn sign_mag(self) -> (bool, $w) { (self < 0, self.unsigned_abs() as $w) }
        }
    )*};
}
signmag_u!(u8, u64; u16, u64; u32, u64; u64, u128; u128, u128; usize, u128);
signmag_i!(i8, u64; i16, u64; i32, u64; i64, u128; i128, u128; isize, u128);

/// Oracle for integer output without division: `out` is the canonical numeral of
/// (neg, mag) in `radix`: optional '-', no leading zeros, digits 0-9 then A-Z
/// (upper case only), nothing else, every byte 7-bit ASCII.
macro_rules! canonical_impl {
    ($name:ident, $w:ty) => {
        pub fn $name(out: &[u8], neg: bool, mag: $w, radix: u32, plus: bool) -> bool {
            let mut i = 0usize;
            if neg {
                if out.len() == 0 || out[0] != b'-' {
                    return false;
                }
                i = 1;
            } else if plus {
                if out.len() == 0 || out[0] != b'+' {
                    return false;
                }
                i = 1;
            }
            if i >= out.len() {
                return false;
            }
            if out[i] == b'0' && out.len() - i != 1 {
                return false;
            }
            let mut v: $w = 0;
            while i < out.len() {
                let c = out[i];
                if c >= 0x80 {
                    return false;
                }
                let d = if c >= b'0' && c <= b'9' {
                    (c - b'0') as u32
                } else if c >= b'A' && c <= b'Z' {
                    (c - b'A') as u32 + 10
                } else {
                    return false;
                };
                if d >= radix {
                    return false;
                }
                v = match v.checked_mul(radix as $w) {
                    Some(x) => match x.checked_add(d as $w) {
                        Some(y) => y,
                        None => return false,
                    },
                    None => return false,
                };
                i += 1;
            }
            v == mag
        }
    };
}
canonical_impl!(canonical_u64, u64);
canonical_impl!(canonical_u128, u128);

// ---------------------------------------------------------------------------
// Float grammar reference (separator-free), parameterised by the syntax flags.

#[derive(Clone, Copy, PartialEq, Eq, Debug)]
pub enum FErr {
    Empty,
    EmptyMantissa,
    EmptyExponent,
    EmptyInteger,
    EmptyFraction,
    InvalidDigit,
    InvalidPositiveSign,
    MissingSign,
    InvalidExponent,
    ExponentWithoutFraction,
    InvalidPositiveExponentSign,
    MissingExponentSign,
    MissingExponent,
    InvalidLeadingZeros,
    Other,
}

#[derive(Clone, Copy, PartialEq, Eq, Debug)]
pub enum RefFloat {
    /// consumed count, negative, mantissa digits as integer, decimal exponent
    Num { count: usize, neg: bool, mant: u64, exp: i64 },
    Nan { count: usize, neg: bool },
    Inf { count: usize, neg: bool },
    Err(FErr, usize),
}

#[derive(Clone, Copy)]
pub struct Gram<'a> {
    pub radix: u32,
    pub exp_radix: u32,
    pub decimal_point: u8,
    pub exponent: u8,
    pub nan: &'a [u8],
    pub inf: &'a [u8],
    pub infinity: &'a [u8],
    pub required_integer_digits: bool,
    pub required_fraction_digits: bool,
    pub required_exponent_digits: bool,
    pub required_mantissa_digits: bool,
    pub no_positive_mantissa_sign: bool,
    pub required_mantissa_sign: bool,
    pub no_exponent_notation: bool,
    pub no_positive_exponent_sign: bool,
    pub required_exponent_sign: bool,
    pub no_exponent_without_fraction: bool,
    pub no_special: bool,
    pub case_sensitive_special: bool,
    pub no_float_leading_zeros: bool,
    pub required_exponent_notation: bool,
    pub case_sensitive_exponent: bool,
}

pub const STD_GRAM: Gram<'static> = Gram {
    radix: 10,
    exp_radix: 10,
    decimal_point: b'.',
    exponent: b'e',
    nan: b"NaN",
    inf: b"inf",
    infinity: b"infinity",
    required_integer_digits: false,
    required_fraction_digits: false,
    required_exponent_digits: true,
    required_mantissa_digits: true,
    no_positive_mantissa_sign: false,
    required_mantissa_sign: false,
    no_exponent_notation: false,
    no_positive_exponent_sign: false,
    required_exponent_sign: false,
    no_exponent_without_fraction: false,
    no_special: false,
    case_sensitive_special: false,
    no_float_leading_zeros: false,
    required_exponent_notation: false,
    case_sensitive_exponent: false,
};

#[inline]
fn lower(c: u8) -> u8 {
    if c >= b'A' && c <= b'Z' {
        c + 32
    } else {
        c
    }
}

fn special_prefix(s: &[u8], from: usize, pat: &[u8], cased: bool) -> bool {
    if pat.len() == 0 || s.len() - from < pat.len() {
        return false;
    }
    let mut k = 0;
    while k < pat.len() {
        let a = s[from + k];
        let b = pat[k];
        if cased {
            if a != b {
                return false;
            }
        } else if lower(a) != lower(b) {
            return false;
        }
        k += 1;
    }
    true
}

/// Special-value recognition after the sign: (is_nan, consumed) or None.
fn ref_special(s: &[u8], from: usize, g: &Gram, partial: bool) -> Option<(bool, usize)> {
    if g.no_special {
        return None;
    }
    let cands: [(&[u8], bool); 3] = [(g.nan, true), (g.infinity, false), (g.inf, false)];
    let mut k = 0;
    while k < 3 {
        let (pat, is_nan) = cands[k];
        if special_prefix(s, from, pat, g.case_sensitive_special) {
            let end = from + pat.len();
            if partial || end == s.len() {
                return Some((is_nan, end));
            }
            // complete parser: the first matching string must span the input
            return None;
        }
        k += 1;
    }
    None
}

/// The numeric part of the grammar: sign already consumed up to `i0`.
fn ref_number(s: &[u8], i0: usize, neg: bool, g: &Gram, partial: bool) -> RefFloat {
    let mut i = i0;
    let start = i;
    let mut mant: u64 = 0;
    let mut n_int = 0usize;
    while i < s.len() {
        match digit(s[i], g.radix) {
            Some(d) => {
                mant = mant.wrapping_mul(g.radix as u64).wrapping_add(d as u64);
                n_int += 1;
                i += 1;
            },
            None => break,
        }
    }
    if g.required_integer_digits && n_int == 0 {
        return RefFloat::Err(FErr::EmptyInteger, i);
    }
    if g.no_float_leading_zeros && n_int > 1 && s[start] == b'0' {
        return RefFloat::Err(FErr::InvalidLeadingZeros, start);
    }
    let mut n_frac = 0usize;
    let has_decimal = i < s.len() && s[i] == g.decimal_point;
    if has_decimal {
        i += 1;
        while i < s.len() {
            match digit(s[i], g.radix) {
                Some(d) => {
                    mant = mant.wrapping_mul(g.radix as u64).wrapping_add(d as u64);
                    n_frac += 1;
                    i += 1;
                },
                None => break,
            }
        }
        if g.required_fraction_digits && n_frac == 0 {
            return RefFloat::Err(FErr::EmptyFraction, i);
        }
    }
    let has_exp = i < s.len()
        && if g.case_sensitive_exponent { s[i] == g.exponent } else { lower(s[i]) == lower(g.exponent) };
    if g.required_mantissa_digits && n_int + n_frac == 0 {
        if has_decimal || has_exp || partial {
            return RefFloat::Err(FErr::EmptyMantissa, i);
        }
        return RefFloat::Err(FErr::InvalidDigit, start);
    }
    let mut exp: i64 = -(n_frac as i64);
    if has_exp {
        i += 1;
        if g.no_exponent_notation {
            return RefFloat::Err(FErr::InvalidExponent, i - 1);
        }
        if g.no_exponent_without_fraction && !has_decimal {
            return RefFloat::Err(FErr::ExponentWithoutFraction, i - 1);
        }
        let mut eneg = false;
        if i < s.len() && s[i] == b'+' {
            if g.no_positive_exponent_sign {
                return RefFloat::Err(FErr::InvalidPositiveExponentSign, i);
            }
            i += 1;
        } else if i < s.len() && s[i] == b'-' {
            eneg = true;
            i += 1;
        } else if g.required_exponent_sign {
            return RefFloat::Err(FErr::MissingExponentSign, i);
        }
        let mut e: i64 = 0;
        let mut n_exp = 0usize;
        while i < s.len() {
            match digit(s[i], g.exp_radix) {
                Some(d) => {
                    if e < 0x10000000 {
                        e = e * g.exp_radix as i64 + d as i64;
                    }
                    n_exp += 1;
                    i += 1;
                },
                None => break,
            }
        }
        if g.required_exponent_digits && n_exp == 0 {
            return RefFloat::Err(FErr::EmptyExponent, i);
        }
        exp += if eneg { -e } else { e };
    } else if g.required_exponent_notation {
        return RefFloat::Err(FErr::MissingExponent, i);
    }
    if !g.required_mantissa_digits && n_int + n_frac == 0 {
        exp = 0;
    }
    if !partial && i != s.len() {
        return RefFloat::Err(FErr::InvalidDigit, i);
    }
    RefFloat::Num { count: i, neg, mant, exp }
}

/// Reference recogniser for the separator-free float grammar.
pub fn ref_float(s: &[u8], g: &Gram, partial: bool) -> RefFloat {
    let mut i = 0usize;
    let mut neg = false;
    if i < s.len() && s[i] == b'+' {
        if g.no_positive_mantissa_sign {
            return RefFloat::Err(FErr::InvalidPositiveSign, 0);
        }
        i += 1;
    } else if i < s.len() && s[i] == b'-' {
        neg = true;
        i += 1;
    } else if g.required_mantissa_sign {
        return RefFloat::Err(FErr::MissingSign, 0);
    }
    if i == s.len() {
        if g.required_integer_digits || g.required_mantissa_digits {
            return RefFloat::Err(FErr::Empty, i);
        }
        return RefFloat::Num { count: i, neg: false, mant: 0, exp: 0 };
    }
    match ref_number(s, i, neg, g, partial) {
        RefFloat::Err(k, idx) => match ref_special(s, i, g, partial) {
            Some((true, c)) => RefFloat::Nan { count: c, neg },
            Some((false, c)) => RefFloat::Inf { count: c, neg },
            None => RefFloat::Err(k, idx),
        },
        ok => ok,
    }
}

// ---------------------------------------------------------------------------
// Digit separators (C13): the documented grammar of docs/DigitSeparators.md.

#[derive(Clone, Copy)]
pub struct SepFlags {
    pub internal: bool,
    pub leading: bool,
    pub trailing: bool,
    pub consecutive: bool,
}

/// Classify every separator run of one component `s[a..b)` (bytes are digits or separators).
/// Returns (all runs allowed by the flags, component contains a digit, number of separators).
fn sep_component(s: &[u8], a: usize, b: usize, sep: u8, fl: SepFlags) -> (bool, bool, usize) {
    let mut ok = true;
    let mut has_digit = false;
    let mut nsep = 0usize;
    let mut i = a;
    while i < b {
        if s[i] != sep {
            has_digit = true;
            i += 1;
            continue;
        }
        let start = i;
        while i < b && s[i] == sep {
            i += 1;
        }
        let run = i - start;
        nsep += run;
        let leading = start == a;
        let trailing = i == b;
        let allowed = if leading || trailing {
            (leading && fl.leading) || (trailing && fl.trailing)
        } else {
            fl.internal
        };
        if !allowed || (run > 1 && !fl.consecutive) {
            ok = false;
        }
    }
    (ok, has_digit, nsep)
}

/// Scan `s` as [sign] INT [. FRAC] [e [sign] EXP] where the three components are maximal runs
/// of decimal digits and separators. Returns (every separator stands in an enabled position
/// inside a component, every component holding a separator also holds a digit).
pub fn sep_positions_ok(s: &[u8], sep: u8, int_f: SepFlags, frac_f: SepFlags, exp_f: SepFlags) -> (bool, bool) {
    let is_ds = |c: u8| (c >= b'0' && c <= b'9') || c == sep;
    let mut total = 0usize;
    let mut k = 0;
    while k < s.len() {
        if s[k] == sep {
            total += 1;
        }
        k += 1;
    }
    let mut i = 0usize;
    if i < s.len() && (s[i] == b'+' || s[i] == b'-') {
        i += 1;
    }
    let a = i;
    while i < s.len() && is_ds(s[i]) {
        i += 1;
    }
    let (mut ok, mut digits_ok, mut seen) = {
        let (o, d, n) = sep_component(s, a, i, sep, int_f);
        (o, d || n == 0, n)
    };
    if i < s.len() && s[i] == b'.' {
        i += 1;
        let a = i;
        while i < s.len() && is_ds(s[i]) {
            i += 1;
        }
        let (o, d, n) = sep_component(s, a, i, sep, frac_f);
        ok = ok && o;
        digits_ok = digits_ok && (d || n == 0);
        seen += n;
    }
    if i < s.len() && (s[i] == b'e' || s[i] == b'E') {
        i += 1;
        if i < s.len() && (s[i] == b'+' || s[i] == b'-') {
            i += 1;
        }
        let a = i;
        while i < s.len() && is_ds(s[i]) {
            i += 1;
        }
        let (o, d, n) = sep_component(s, a, i, sep, exp_f);
        ok = ok && o;
        digits_ok = digits_ok && (d || n == 0);
        seen += n;
    }
    (ok && seen == total, digits_ok)
}

// ---------------------------------------------------------------------------
// Integer grammar with syntax flags (C12), separator-free.
#[derive(Clone, Copy)]
pub struct IntGram {
    pub radix: u32,
    pub no_positive_sign: bool,
    pub required_sign: bool,
    pub no_leading_zeros: bool,
    pub prefix: u8, // 0 = none
    pub suffix: u8,
    pub case_sensitive_prefix: bool,
    pub case_sensitive_suffix: bool,
}

fn eq_cased(a: u8, b: u8, cased: bool) -> bool {
    if cased {
        a == b
    } else {
        lower(a) == lower(b)
    }
}

/// Documented grammar: [sign] [0 prefix] digits [suffix]; returns Some((negative, magnitude))
/// when the whole input is derived (value wraps are excluded by the callers' bounds).
pub fn ref_int_flags(s: &[u8], g: &IntGram, signed: bool) -> Option<(bool, u64)> {
    let mut i = 0usize;
    let mut neg = false;
    if i < s.len() && s[i] == b'+' {
        if g.no_positive_sign {
            return None;
        }
        i += 1;
    } else if i < s.len() && s[i] == b'-' && signed {
        neg = true;
        i += 1;
    } else if g.required_sign {
        return None;
    }
    let mut had_prefix = false;
    if g.prefix != 0 && i + 1 < s.len() && s[i] == b'0' && eq_cased(s[i + 1], g.prefix, g.case_sensitive_prefix) {
        i += 2;
        had_prefix = true;
    }
    let start = i;
    let mut v: u64 = 0;
    while i < s.len() {
        match digit(s[i], g.radix) {
            Some(d) => {
                v = v * g.radix as u64 + d as u64;
                i += 1;
            },
            None => break,
        }
    }
    let nd = i - start;
    if nd == 0 {
        return None;
    }
    if g.no_leading_zeros && !had_prefix && nd > 1 && s[start] == b'0' {
        return None;
    }
    if g.suffix != 0 && i < s.len() && eq_cased(s[i], g.suffix, g.case_sensitive_suffix) {
        i += 1;
    }
    if i != s.len() {
        return None;
    }
    Some((neg && v != 0, v))
}
