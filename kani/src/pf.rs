//! Float parsing, grammar layer (C10, C11, C12-STANDARD, C15, C19, C01 seam 1).
//!
//! The numeric back end is cut out with Kani stubs (`-Z stubbing`): the moderate
//! path returns a deterministic function of the parsed `Number`
//! (mantissa low bits, exponent low 6 bits), the fast path is disabled and the
//! slow path is never needed. The result bits therefore expose the decimal
//! decomposition computed by the real `parse_number` through the public API.
use crate::refs::*;
use lexical_core as lc;
use lexical_core::Error;
use lexical_core::format::STANDARD;
use lexical_core::ParseFloatOptions;
use lexical_parse_float::float::{ExtendedFloat80, LemireFloat, RawFloat};
use lexical_parse_float::number::Number;

pub fn stub_moderate<F: LemireFloat, const FORMAT: u128>(num: &Number, lossy: bool) -> ExtendedFloat80 {
    let mant = num.mantissa & ((1u64 << F::MANTISSA_SIZE) - 1);
    let exp = ((num.exponent as i32) & 0x3f) + 1;
    ExtendedFloat80 { mant, exp }
}
pub fn stub_slow<F: LemireFloat, const FORMAT: u128>(num: Number, fp: ExtendedFloat80) -> ExtendedFloat80 {
    fp
}
pub fn stub_fast<'a, F: RawFloat, const FORMAT: u128>(num: &Number<'a>) -> Option<F>
where
    'a: 'a,
{
    None
}

pub fn map_err(e: Error) -> (FErr, usize) {
    match e {
        Error::Empty(i) => (FErr::Empty, i),
        Error::EmptyMantissa(i) => (FErr::EmptyMantissa, i),
        Error::EmptyExponent(i) => (FErr::EmptyExponent, i),
        Error::EmptyInteger(i) => (FErr::EmptyInteger, i),
        Error::EmptyFraction(i) => (FErr::EmptyFraction, i),
        Error::InvalidDigit(i) => (FErr::InvalidDigit, i),
        Error::InvalidPositiveSign(i) => (FErr::InvalidPositiveSign, i),
        Error::MissingSign(i) => (FErr::MissingSign, i),
        Error::InvalidExponent(i) => (FErr::InvalidExponent, i),
        Error::ExponentWithoutFraction(i) => (FErr::ExponentWithoutFraction, i),
        Error::InvalidPositiveExponentSign(i) => (FErr::InvalidPositiveExponentSign, i),
        Error::MissingExponentSign(i) => (FErr::MissingExponentSign, i),
        Error::MissingExponent(i) => (FErr::MissingExponent, i),
        Error::InvalidLeadingZeros(i) => (FErr::InvalidLeadingZeros, i),
        _ => (FErr::Other, e.index().map_or(0, |x| *x)),
    }
}

/// Stub image of a reference decomposition, as IEEE bits.
macro_rules! stub_bits {
    (f32, $neg:expr, $mant:expr, $exp:expr) => {
        (($neg as u32) << 31) | (((($exp as i32) & 0x3f) as u32 + 1) << 23) | (($mant as u32) & 0x7f_ffff)
    };
    (f64, $neg:expr, $mant:expr, $exp:expr) => {
        (($neg as u64) << 63) | (((($exp as i32) & 0x3f) as u64 + 1) << 52) | (($mant as u64) & 0xf_ffff_ffff_ffff)
    };
}
pub(crate) use stub_bits;

/// Compare one parser result with the reference, asserting error kind and index (STANDARD).
macro_rules! cmp_float {
    ($f:ident, $got:expr, $want:expr, $len:expr, $strict_err:expr) => {{
        match ($got, $want) {
            (Ok((v, n)), RefFloat::Num { count, neg, mant, exp }) => {
                assert!(n == count, "consumed count");
                assert!(n <= $len);
                assert!(!v.is_nan(), "numeric input gave NaN");
                assert!(v.to_bits() == stub_bits!($f, neg, mant, exp), "mantissa/exponent/sign decomposition");
            },
            (Ok((v, n)), RefFloat::Nan { count, neg }) => {
                assert!(n == count, "consumed count (NaN)");
                assert!(v.is_nan());
            },
            (Ok((v, n)), RefFloat::Inf { count, neg }) => {
                assert!(n == count, "consumed count (inf)");
                assert!(v.is_infinite() && v.is_sign_negative() == neg);
            },
            (Err(e), RefFloat::Err(k, idx)) => {
                let (gk, gi) = map_err(e);
                assert!(gi <= $len, "error index within input");
                if $strict_err {
                    assert!(gk == k, "error kind");
                    assert!(gi == idx, "error index");
                }
            },
            _ => assert!(false, "parser and reference grammar disagree on acceptance"),
        }
    }};
}
pub(crate) use cmp_float;

/// P1: arbitrary bytes, default options, one entry point per harness.
macro_rules! p1 {
    ($name:ident, $f:ident, $n:expr, $u:literal, partial) => {
        #[kani::proof]
        #[kani::unwind($u)]
        #[kani::stub(lexical_parse_float::parse::moderate_path, stub_moderate)]
        #[kani::stub(lexical_parse_float::parse::slow_path, stub_slow)]
        #[kani::stub(lexical_parse_float::number::Number::try_fast_path, stub_fast)]
        fn $name() {
            let buf: [u8; $n] = kani::any();
            let len: usize = kani::any();
            kani::assume(len <= $n);
            let s = &buf[..len];
            let p = lc::parse_partial::<$f>(s);
            let r = ref_float(s, &STD_GRAM, true);
            cmp_float!($f, p, r, len, true);
            kani::cover!(matches!(p, Ok((_, n)) if n == $n), "accepted whole input");
            kani::cover!(matches!(p, Ok((_, n)) if n > 0 && n < len), "stops early");
            kani::cover!(matches!(p, Ok((v, _)) if v.is_nan()), "NaN accepted");
            kani::cover!(matches!(p, Ok((v, _)) if v.is_infinite()), "inf accepted");
            kani::cover!(matches!(p, Err(Error::EmptyExponent(_))), "empty exponent");
            kani::cover!(matches!(p, Err(Error::EmptyMantissa(_))), "empty mantissa");
        }
    };
    ($name:ident, $f:ident, $n:expr, $u:literal, complete) => {
        #[kani::proof]
        #[kani::unwind($u)]
        #[kani::stub(lexical_parse_float::parse::moderate_path, stub_moderate)]
        #[kani::stub(lexical_parse_float::parse::slow_path, stub_slow)]
        #[kani::stub(lexical_parse_float::number::Number::try_fast_path, stub_fast)]
        fn $name() {
            let buf: [u8; $n] = kani::any();
            let len: usize = kani::any();
            kani::assume(len <= $n);
            let s = &buf[..len];
            let c = lc::parse::<$f>(s);
            let r = ref_float(s, &STD_GRAM, false);
            cmp_float!($f, c.map(|v| (v, len)), r, len, true);
            kani::cover!(c.is_ok() && len == $n, "accepted whole input");
            kani::cover!(matches!(c, Ok(v) if v.is_nan()), "NaN accepted");
            kani::cover!(matches!(c, Ok(v) if v.is_infinite() && v.is_sign_negative()), "-inf accepted");
            kani::cover!(matches!(c, Err(Error::InvalidDigit(i)) if i > 0), "trailing junk");
            kani::cover!(matches!(c, Err(Error::EmptyExponent(_))), "empty exponent");
        }
    };
}
p1!(p1_f32_partial_4, f32, 4, 6, partial);
p1!(p1_f32_complete_4, f32, 4, 6, complete);
p1!(p1_f64_partial_4, f64, 4, 6, partial);
p1!(p1_f64_complete_4, f64, 4, 6, complete);
p1!(p1_f32_partial_5, f32, 5, 7, partial);
p1!(p1_f32_complete_5, f32, 5, 7, complete);
p1!(p1_f64_partial_5, f64, 5, 7, partial);
p1!(p1_f64_complete_5, f64, 5, 7, complete);
p1!(p1_f32_partial_6, f32, 6, 8, partial);
p1!(p1_f32_complete_6, f32, 6, 8, complete);
p1!(p1_f64_partial_6, f64, 6, 8, partial);
p1!(p1_f64_complete_6, f64, 6, 8, complete);

/// P2 (C11): both entry points on the same input, plus the prefix re-parse.
macro_rules! p2 {
    ($name:ident, $f:ident, $n:expr, $u:literal) => {
        #[kani::proof]
        #[kani::unwind($u)]
        #[kani::stub(lexical_parse_float::parse::moderate_path, stub_moderate)]
        #[kani::stub(lexical_parse_float::parse::slow_path, stub_slow)]
        #[kani::stub(lexical_parse_float::number::Number::try_fast_path, stub_fast)]
        fn $name() {
            let buf: [u8; $n] = kani::any();
            let len: usize = kani::any();
            kani::assume(len <= $n);
            let s = &buf[..len];
            let c = lc::parse::<$f>(s);
            let p = lc::parse_partial::<$f>(s);
            // complete Ok(v)  <=>  partial Ok((v, len))
            match (c, p) {
                (Ok(v), Ok((w, n))) => {
                    assert!(n == len, "complete accepted but partial stopped early");
                    assert!(v.to_bits() == w.to_bits(), "complete and partial values differ");
                },
                (Ok(_), Err(_)) => assert!(false, "complete accepted, partial rejected"),
                (Err(_), Ok((_, n))) => assert!(n != len, "partial consumed everything, complete rejected"),
                (Err(_), Err(_)) => {},
            }
            // partial Ok((v, n)), n > 0  =>  complete(s[..n]) == Ok(v)
            if let Ok((w, n)) = p {
                if n > 0 && n < len {
                    let c2 = lc::parse::<$f>(&s[..n]);
                    match c2 {
                        Ok(v2) => assert!(v2.to_bits() == w.to_bits(), "prefix re-parse value differs"),
                        Err(_) => assert!(false, "prefix accepted by the partial parser is rejected by the complete parser"),
                    }
                    kani::cover!(true, "prefix re-parse exercised");
                }
            }
            kani::cover!(c.is_ok() && len == $n, "complete accepts");
        }
    };
}
p2!(p2_f32_4, f32, 4, 6);
p2!(p2_f64_4, f64, 4, 6);
p2!(p2_f32_5, f32, 5, 7);
p2!(p2_f64_5, f64, 5, 7);

/// P3 (C19): `lossy` never changes acceptance, counts or errors (numerics stubbed, so
/// equal decompositions give equal bits).
macro_rules! p3 {
    ($name:ident, $f:ident, $n:expr, $u:literal) => {
        #[kani::proof]
        #[kani::unwind($u)]
        #[kani::stub(lexical_parse_float::parse::moderate_path, stub_moderate)]
        #[kani::stub(lexical_parse_float::parse::slow_path, stub_slow)]
        #[kani::stub(lexical_parse_float::number::Number::try_fast_path, stub_fast)]
        fn $name() {
            const LOSSY: ParseFloatOptions = ParseFloatOptions::builder().lossy(true).build_unchecked();
            const EXACT: ParseFloatOptions = ParseFloatOptions::new();
            let buf: [u8; $n] = kani::any();
            let len: usize = kani::any();
            kani::assume(len <= $n);
            let s = &buf[..len];
            let a = lc::parse_partial_with_options::<$f, STANDARD>(s, &LOSSY);
            let b = lc::parse_partial_with_options::<$f, STANDARD>(s, &EXACT);
            match (a, b) {
                (Ok((x, n)), Ok((y, m))) => {
                    assert!(n == m, "lossy changes the consumed count");
                    assert!(x.to_bits() == y.to_bits(), "lossy changes the decomposition");
                },
                (Err(e), Err(f)) => assert!(e == f, "lossy changes the error"),
                _ => assert!(false, "lossy changes acceptance"),
            }
            let c = lc::parse_with_options::<$f, STANDARD>(s, &LOSSY);
            let d = lc::parse_with_options::<$f, STANDARD>(s, &EXACT);
            assert!(c.is_ok() == d.is_ok(), "lossy changes complete-parser acceptance");
            if let (Err(e), Err(f)) = (c, d) {
                assert!(e == f, "lossy changes the complete-parser error");
            }
            kani::cover!(a.is_ok() && len == $n, "accepted");
            kani::cover!(a.is_err(), "rejected");
        }
    };
}
p3!(p3_lossy_f32_3, f32, 3, 5);
p3!(p3_lossy_f64_3, f64, 3, 5);
p3!(p3_lossy_f32_4, f32, 4, 6);
p3!(p3_lossy_f64_4, f64, 4, 6);
p3!(p3_lossy_f32_5, f32, 5, 7);
