//! C13: digit separators never change a value and are accepted only where enabled.
use crate::pf::{map_err, stub_bits, stub_fast, stub_moderate, stub_slow};
use crate::refs::*;
use core::num::NonZeroU8;
use lexical_core as lc;
use lexical_core::format::STANDARD;
use lexical_core::Error;
use lexical_core::NumberFormatBuilder;
use lexical_core::{ParseFloatOptions, ParseIntegerOptions};

const fn fmt(i: bool, l: bool, t: bool, c: bool) -> u128 {
    NumberFormatBuilder::new()
        .digit_separator(NonZeroU8::new(b'_'))
        .internal_digit_separator(i)
        .leading_digit_separator(l)
        .trailing_digit_separator(t)
        .consecutive_digit_separator(c)
        .build_strict()
}

/// The number alphabet of C13: sign, digits, separator, point, exponent, junk.
fn in_alphabet(c: u8) -> bool {
    c == b'_' || c == b'0' || c == b'1' || c == b'9' || c == b'.' || c == b'e' || c == b'+' || c == b'-' || c == b'x'
}

macro_rules! sepf {
    ($name:ident, $f:ident, $n:expr, $u:literal, $i:expr, $l:expr, $t:expr, $c:expr) => {
        #[kani::proof]
        #[kani::unwind($u)]
        #[kani::stub(lexical_parse_float::parse::moderate_path, stub_moderate)]
        #[kani::stub(lexical_parse_float::parse::slow_path, stub_slow)]
        #[kani::stub(lexical_parse_float::number::Number::try_fast_path, stub_fast)]
        fn $name() {
            const FMT: u128 = fmt($i, $l, $t, $c);
            const OPTS: ParseFloatOptions = ParseFloatOptions::new();
            let fl = SepFlags { internal: $i, leading: $l, trailing: $t, consecutive: $c };
            let buf: [u8; $n] = kani::any();
            let len: usize = kani::any();
            kani::assume(len <= $n);
            let mut k = 0;
            while k < $n {
                kani::assume(in_alphabet(buf[k]));
                k += 1;
            }
            let s = &buf[..len];
            // the same input with every separator deleted
            let mut clean = [0u8; $n];
            let mut m = 0usize;
            let mut nsep = 0usize;
            k = 0;
            while k < len {
                if s[k] == b'_' {
                    nsep += 1;
                } else {
                    clean[m] = s[k];
                    m += 1;
                }
                k += 1;
            }
            let got = lc::parse_with_options::<$f, FMT>(s, &OPTS);
            let base = lc::parse_with_options::<$f, STANDARD>(&clean[..m], &OPTS);
            let (pos_ok, digits_ok) = sep_positions_ok(s, b'_', fl, fl, fl);
            match got {
                Ok(v) => {
                    // (a) still accepted with the same value once separators are deleted
                    match base {
                        Ok(w) => assert!(v.to_bits() == w.to_bits(), "separators changed the value"),
                        Err(_) => assert!(false, "accepted with separators, rejected without"),
                    }
                    // (b) every separator stood where the flags allow
                    assert!(pos_ok, "separator accepted in a position the format does not enable");
                },
                Err(_) => {
                    // (c) enabled positions inside digit-bearing components never cause rejection
                    if base.is_ok() && pos_ok && digits_ok {
                        assert!(false, "separators at enabled positions made an accepted input rejected");
                    }
                },
            }
            // (d) no separator byte: identical treatment, errors included
            if nsep == 0 {
                match (got, base) {
                    (Ok(v), Ok(w)) => assert!(v.to_bits() == w.to_bits()),
                    (Err(e), Err(f)) => assert!(e == f, "separator-free input treated differently"),
                    _ => assert!(false, "separator-free input treated differently"),
                }
            }
            kani::cover!(got.is_ok() && nsep > 0, "accepted input containing a separator");
            kani::cover!(got.is_err() && nsep > 0 && base.is_ok(), "rejected only because of a separator");
            kani::cover!(got.is_ok() && nsep == 0 && len == $n, "accepted separator-free input");
        }
    };
}

// the 15 uniform l/i/t/c combinations (consecutive needs a position flag)
sepf!(sep_f64_i_5, f64, 5, 7, true, false, false, false);
sepf!(sep_f64_l_5, f64, 5, 7, false, true, false, false);
sepf!(sep_f64_t_5, f64, 5, 7, false, false, true, false);
sepf!(sep_f64_il_5, f64, 5, 7, true, true, false, false);
sepf!(sep_f64_it_5, f64, 5, 7, true, false, true, false);
sepf!(sep_f64_lt_5, f64, 5, 7, false, true, true, false);
sepf!(sep_f64_ilt_5, f64, 5, 7, true, true, true, false);
sepf!(sep_f64_ic_5, f64, 5, 7, true, false, false, true);
sepf!(sep_f64_lc_5, f64, 5, 7, false, true, false, true);
sepf!(sep_f64_tc_5, f64, 5, 7, false, false, true, true);
sepf!(sep_f64_ilc_5, f64, 5, 7, true, true, false, true);
sepf!(sep_f64_itc_5, f64, 5, 7, true, false, true, true);
sepf!(sep_f64_ltc_5, f64, 5, 7, false, true, true, true);
sepf!(sep_f64_iltc_5, f64, 5, 7, true, true, true, true);
sepf!(sep_f32_iltc_4, f32, 4, 6, true, true, true, true);
sepf!(sep_f64_t_4, f64, 4, 6, false, false, true, false);
sepf!(sep_f64_i_4, f64, 4, 6, true, false, false, false);
sepf!(sep_f64_l_4, f64, 4, 6, false, true, false, false);
sepf!(sep_f64_ilt_4, f64, 4, 6, true, true, true, false);
sepf!(sep_f64_iltc_4, f64, 4, 6, true, true, true, true);
sepf!(sep_f64_iltc_6, f64, 6, 8, true, true, true, true);
sepf!(sep_f64_i_6, f64, 6, 8, true, false, false, false);
sepf!(sep_f64_t_6, f64, 6, 8, false, false, true, false);
sepf!(sep_f64_l_6, f64, 6, 8, false, true, false, false);

/// Integers: the integer component only.
macro_rules! sepi {
    ($name:ident, $t:ty, $n:expr, $u:literal, $i:expr, $l:expr, $tr:expr, $c:expr) => {
        #[kani::proof]
        #[kani::unwind($u)]
        fn $name() {
            const FMT: u128 = fmt($i, $l, $tr, $c);
            const OPTS: ParseIntegerOptions = ParseIntegerOptions::new();
            let fl = SepFlags { internal: $i, leading: $l, trailing: $tr, consecutive: $c };
            let buf: [u8; $n] = kani::any();
            let len: usize = kani::any();
            kani::assume(len <= $n);
            let mut k = 0;
            while k < $n {
                kani::assume(in_alphabet(buf[k]) && buf[k] != b'.' && buf[k] != b'e');
                k += 1;
            }
            let s = &buf[..len];
            let mut clean = [0u8; $n];
            let mut m = 0usize;
            let mut nsep = 0usize;
            k = 0;
            while k < len {
                if s[k] == b'_' {
                    nsep += 1;
                } else {
                    clean[m] = s[k];
                    m += 1;
                }
                k += 1;
            }
            let got = lc::parse_with_options::<$t, FMT>(s, &OPTS);
            let base = lc::parse_with_options::<$t, STANDARD>(&clean[..m], &OPTS);
            let (pos_ok, digits_ok) = sep_positions_ok(s, b'_', fl, fl, fl);
            match got {
                Ok(v) => {
                    match base {
                        Ok(w) => assert!(v == w, "separators changed the value"),
                        Err(_) => assert!(false, "accepted with separators, rejected without"),
                    }
                    assert!(pos_ok, "separator accepted in a position the format does not enable");
                },
                Err(_) => {
                    if base.is_ok() && pos_ok && digits_ok {
                        assert!(false, "separators at enabled positions made an accepted input rejected");
                    }
                },
            }
            if nsep == 0 {
                assert!(got == base, "separator-free input treated differently");
            }
            kani::cover!(got.is_ok() && nsep > 0, "accepted input containing a separator");
            kani::cover!(got.is_err() && nsep > 0 && base.is_ok(), "rejected only because of a separator");
        }
    };
}
sepi!(sep_u32_i_5, u32, 5, 7, true, false, false, false);
sepi!(sep_u32_l_5, u32, 5, 7, false, true, false, false);
sepi!(sep_u32_t_5, u32, 5, 7, false, false, true, false);
sepi!(sep_i32_iltc_5, i32, 5, 7, true, true, true, true);
sepi!(sep_u8_ilt_5, u8, 5, 7, true, true, true, false);
sepi!(sep_i64_itc_5, i64, 5, 7, true, false, true, true);
sepi!(sep_u64_lc_5, u64, 5, 7, false, true, false, true);

// every uniform combination on integers at 4 bytes (cheap), and the remaining float combinations at 4 bytes
sepi!(sep_i32_i_4, i32, 4, 6, true, false, false, false);
sepi!(sep_i32_l_4, i32, 4, 6, false, true, false, false);
sepi!(sep_i32_t_4, i32, 4, 6, false, false, true, false);
sepi!(sep_i32_il_4, i32, 4, 6, true, true, false, false);
sepi!(sep_i32_it_4, i32, 4, 6, true, false, true, false);
sepi!(sep_i32_lt_4, i32, 4, 6, false, true, true, false);
sepi!(sep_i32_ilt_4, i32, 4, 6, true, true, true, false);
sepi!(sep_i32_ic_4, i32, 4, 6, true, false, false, true);
sepi!(sep_i32_lc_4, i32, 4, 6, false, true, false, true);
sepi!(sep_i32_tc_4, i32, 4, 6, false, false, true, true);
sepi!(sep_i32_ilc_4, i32, 4, 6, true, true, false, true);
sepi!(sep_i32_itc_4, i32, 4, 6, true, false, true, true);
sepi!(sep_i32_ltc_4, i32, 4, 6, false, true, true, true);
sepi!(sep_i32_iltc_4, i32, 4, 6, true, true, true, true);
sepf!(sep_f64_il_4, f64, 4, 6, true, true, false, false);
sepf!(sep_f64_it_4, f64, 4, 6, true, false, true, false);
sepf!(sep_f64_lt_4, f64, 4, 6, false, true, true, false);
sepf!(sep_f64_ic_4, f64, 4, 6, true, false, false, true);
sepf!(sep_f64_lc_4, f64, 4, 6, false, true, false, true);
sepf!(sep_f64_tc_4, f64, 4, 6, false, false, true, true);
sepf!(sep_f64_ilc_4, f64, 4, 6, true, true, false, true);
sepf!(sep_f64_itc_4, f64, 4, 6, true, false, true, true);
sepf!(sep_f64_ltc_4, f64, 4, 6, false, true, true, true);

/// C11 under a separator format: partial and complete parsers agree (prefix re-parse included).
fn in_small_alphabet(c: u8) -> bool {
    c == b'_' || c == b'1' || c == b'.' || c == b'e' || c == b'x'
}

macro_rules! sep_rel {
    ($name:ident, $f:ident, $n:expr, $u:literal, $i:expr, $l:expr, $t:expr, $c:expr) => {
        sep_rel!($name, $f, $n, $u, $i, $l, $t, $c, in_alphabet);
    };
    ($name:ident, $f:ident, $n:expr, $u:literal, $i:expr, $l:expr, $t:expr, $c:expr, $alpha:ident) => {
        #[kani::proof]
        #[kani::unwind($u)]
        #[kani::stub(lexical_parse_float::parse::moderate_path, stub_moderate)]
        #[kani::stub(lexical_parse_float::parse::slow_path, stub_slow)]
        #[kani::stub(lexical_parse_float::number::Number::try_fast_path, stub_fast)]
        fn $name() {
            const FMT: u128 = fmt($i, $l, $t, $c);
            const OPTS: ParseFloatOptions = ParseFloatOptions::new();
            let buf: [u8; $n] = kani::any();
            let len: usize = kani::any();
            kani::assume(len <= $n);
            let mut k = 0;
            while k < $n {
                kani::assume($alpha(buf[k]));
                k += 1;
            }
            let s = &buf[..len];
            let c = lc::parse_with_options::<$f, FMT>(s, &OPTS);
            let p = lc::parse_partial_with_options::<$f, FMT>(s, &OPTS);
            match (c, p) {
                (Ok(v), Ok((w, n))) => {
                    assert!(n == len, "complete accepted but partial stopped early");
                    assert!(v.to_bits() == w.to_bits(), "complete and partial values differ");
                },
                (Ok(_), Err(_)) => assert!(false, "complete accepted, partial rejected"),
                (Err(_), Ok((_, n))) => assert!(n != len, "partial consumed everything, complete rejected"),
                (Err(_), Err(_)) => {},
            }
            if let Ok((w, n)) = p {
                if n > 0 && n < len {
                    match lc::parse_with_options::<$f, FMT>(&s[..n], &OPTS) {
                        Ok(v2) => assert!(v2.to_bits() == w.to_bits(), "prefix re-parse value differs"),
                        Err(_) => assert!(false, "prefix accepted by the partial parser is rejected by the complete parser"),
                    }
                    kani::cover!(s[n - 1] == b'_', "consumed prefix ends with a separator");
                }
            }
            kani::cover!(c.is_ok() && len == $n, "complete accepts");
        }
    };
}
sep_rel!(seprel_f64_t_3, f64, 3, 5, false, false, true, false);
sep_rel!(seprel_f64_t_4, f64, 4, 6, false, false, true, false);
sep_rel!(seprel_f64_t_4s, f64, 4, 6, false, false, true, false, in_small_alphabet);
sep_rel!(seprel_f64_iltc_4s, f64, 4, 6, true, true, true, true, in_small_alphabet);
sep_rel!(seprel_f64_iltc_4, f64, 4, 6, true, true, true, true);
sep_rel!(seprel_f64_l_4, f64, 4, 6, false, true, false, false);
sep_rel!(seprel_f64_i_4, f64, 4, 6, true, false, false, false);

/// Long-digit family: a short symbolic head over {0, 9, _} followed by a concrete run of
/// twenty 9s (more than the 19 digits a u64 mantissa holds), with the decimal point before or
/// after the head. Exercises the truncated-mantissa bookkeeping (leading-zero skip, digit
/// counts) under a skip iterator; clauses (a) and (c) only.
macro_rules! seplong {
    ($name:ident, $f:ident, $u:literal, $pre:expr, $nsym:expr, $mid:expr, $i:expr, $l:expr, $t:expr, $c:expr) => {
        #[kani::proof]
        #[kani::unwind($u)]
        #[kani::stub(lexical_parse_float::parse::moderate_path, stub_moderate)]
        #[kani::stub(lexical_parse_float::parse::slow_path, stub_slow)]
        #[kani::stub(lexical_parse_float::number::Number::try_fast_path, stub_fast)]
        fn $name() {
            const FMT: u128 = fmt($i, $l, $t, $c);
            const OPTS: ParseFloatOptions = ParseFloatOptions::new();
            const PRE: &[u8] = $pre;
            const MID: &[u8] = $mid;
            const N: usize = PRE.len() + $nsym + MID.len() + 20;
            let fl = SepFlags { internal: $i, leading: $l, trailing: $t, consecutive: $c };
            let mut buf = [b'9'; N];
            let mut k = 0;
            while k < PRE.len() {
                buf[k] = PRE[k];
                k += 1;
            }
            let head: [u8; $nsym] = kani::any();
            k = 0;
            while k < $nsym {
                kani::assume(head[k] == b'0' || head[k] == b'_' || head[k] == b'9');
                buf[PRE.len() + k] = head[k];
                k += 1;
            }
            k = 0;
            while k < MID.len() {
                buf[PRE.len() + $nsym + k] = MID[k];
                k += 1;
            }
            let s = &buf[..];
            let mut clean = [0u8; N];
            let mut m = 0usize;
            let mut nsep = 0usize;
            k = 0;
            while k < N {
                if s[k] == b'_' {
                    nsep += 1;
                } else {
                    clean[m] = s[k];
                    m += 1;
                }
                k += 1;
            }
            let got = lc::parse_with_options::<$f, FMT>(s, &OPTS);
            let base = lc::parse_with_options::<$f, STANDARD>(&clean[..m], &OPTS);
            let (pos_ok, digits_ok) = sep_positions_ok(s, b'_', fl, fl, fl);
            match got {
                Ok(v) => match base {
                    Ok(w) => assert!(v.to_bits() == w.to_bits(), "separators changed the value"),
                    Err(_) => assert!(false, "accepted with separators, rejected without"),
                },
                Err(_) => {
                    if base.is_ok() && pos_ok && digits_ok {
                        assert!(false, "separators at enabled positions made an accepted input rejected");
                    }
                },
            }
            kani::cover!(got.is_ok() && nsep > 0, "accepted input containing a separator");
            kani::cover!(got.is_ok() && nsep == 0, "accepted separator-free input");
        }
    };
}
seplong!(seplong_f64_int_iltc, f64, 28, b"", 3, b".", true, true, true, true);
seplong!(seplong_f64_frac_iltc, f64, 28, b"0.", 3, b"", true, true, true, true);
seplong!(seplong_f64_int_i, f64, 28, b"0", 3, b"0.", true, false, false, false);
seplong!(seplong_f64_frac_i, f64, 28, b"0.0", 3, b"0", true, false, false, false);
