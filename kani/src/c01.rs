//! C01 seams decided in Kani: the exact fast path (seam 2) and bit packing (seam 4).
use crate::refs::*;
use lexical_core::format::STANDARD;
use lexical_parse_float::float::{extended_to_float, ExtendedFloat80, RawFloat};
use lexical_parse_float::number::Number;

const POW10_U128: [u128; 39] = {
    let mut t = [1u128; 39];
    let mut i = 1;
    while i < 39 {
        t[i] = t[i - 1] * 10;
        i += 1;
    }
    t
};

macro_rules! fast_path {
    ($name:ident, $f:ident, $bits:ty, $p:expr, $maxe:expr, $maxd:expr) => {
        /// `is_fast_path` only admits operands for which ONE IEEE operation is exact-input:
        /// mantissa <= 2^(p+1), |exponent| within the exactly representable powers of ten, the
        /// power read from the table is exactly 10^e, and in the disguised branch the integer
        /// product does not wrap and stays <= 2^(p+1). (IEEE-754 then guarantees a correctly
        /// rounded result: trusted.)
        #[kani::proof]
        fn $name() {
            let mantissa: u64 = kani::any();
            let exponent: i64 = kani::any();
            let many: bool = kani::any();
            let neg: bool = kani::any();
            let num = Number { exponent, mantissa, is_negative: neg, many_digits: many, integer: &[], fraction: None };
            if num.is_fast_path::<$f, STANDARD>() {
                assert!(!many, "truncated mantissa on the fast path");
                assert!(mantissa <= (1u64 << ($p + 1)), "mantissa not exactly representable");
                assert!(exponent >= -$maxe && exponent <= $maxe + $maxd, "exponent outside the exact range");
                let e = if exponent < 0 { -exponent } else if exponent > $maxe { $maxe } else { exponent } as usize;
                // the table entry is exactly 10^e (10^e = 2^e * 5^e with 5^e < 2^(p+1): representable)
                let pw = <$f>::pow_fast_path(e, 10);
                let exact = POW10_U128[e];
                assert!(pw == exact as $f, "small power table entry is not 10^e");
                assert!((pw as u128) == exact, "small power table entry is not 10^e (integer view)");
                if exponent > $maxe {
                    let shift = (exponent - $maxe) as usize;
                    let ip = <$f>::int_pow_fast_path(shift, 10);
                    assert!(ip as u128 == POW10_U128[shift], "integer power table entry");
                }
            }
            // the API: Some(v) only on the fast path, with the right sign
            if let Some(v) = num.try_fast_path::<$f, STANDARD>() {
                assert!(num.is_fast_path::<$f, STANDARD>());
                assert!(mantissa == 0 || v.is_sign_negative() == neg, "sign of the fast-path result");
                if exponent > $maxe {
                    let shift = (exponent - $maxe) as usize;
                    let prod = mantissa as u128 * POW10_U128[shift];
                    assert!(prod <= (1u128 << ($p + 1)), "disguised fast path product not exactly representable");
                }
            }
            kani::cover!(num.is_fast_path::<$f, STANDARD>() && exponent > $maxe, "disguised fast path");
            kani::cover!(num.is_fast_path::<$f, STANDARD>() && exponent < 0, "division fast path");
            kani::cover!(num.try_fast_path::<$f, STANDARD>().is_none() && num.is_fast_path::<$f, STANDARD>(), "disguised fast path refused");
        }
    };
}
fast_path!(fast_path_f64, f64, u64, 52, 22, 15);
fast_path!(fast_path_f32, f32, u32, 23, 10, 7);

macro_rules! pack {
    ($name:ident, $f:ident, $p:expr, $inf:expr) => {
        /// Seam 4: (mant, biased exp) -> IEEE bits.
        #[kani::proof]
        fn $name() {
            let mant: u64 = kani::any();
            let exp: i32 = kani::any();
            kani::assume(mant < (1u64 << $p) && exp >= 0 && exp <= $inf);
            let v = extended_to_float::<$f>(ExtendedFloat80 { mant, exp });
            assert!(v.to_bits() as u64 == (mant | ((exp as u64) << $p)));
            kani::cover!(exp == $inf && mant == 0 && v.is_infinite(), "infinity");
        }
    };
}
pack!(pack_f64, f64, 52, 2047);
pack!(pack_f32, f32, 23, 255);

/// Slow-path digit accumulator (`slow::parse_mantissa`) at a reduced digit cap. The real cap
/// (769 / 114 digits) is a parameter of the function; here it is symbolic in 1..=MAXCAP and the
/// digit strings are short, so every interaction of "cap reached in the integer part / in the
/// fraction / not at all" with "non-zero digit among the dropped ones" is inside the bound.
/// Oracle: the significant digits (leading zeros stripped) cut to the cap, plus one sticky digit
/// 1 exactly when a dropped digit is non-zero.
macro_rules! mant {
    ($name:ident, $ni:expr, $nf:expr, $maxcap:expr, $u:literal) => {
        #[kani::proof]
        #[kani::unwind($u)]
        fn $name() {
            let ib: [u8; $ni] = kani::any();
            let fb: [u8; $nf] = kani::any();
            let ni: usize = kani::any();
            let nf: usize = kani::any();
            kani::assume(ni <= $ni && nf <= $nf);
            let has_frac: bool = kani::any();
            kani::assume(has_frac || nf == 0);
            let cap: usize = kani::any();
            kani::assume(cap >= 1 && cap <= $maxcap);
            // reference
            let mut value: u64 = 0;
            let mut count: usize = 0;
            let mut started = false;
            let mut sticky = false;
            let mut k = 0;
            while k < $ni + $nf {
                let present = if k < $ni { k < ni } else { k - $ni < nf };
                if present {
                    let c = if k < $ni { ib[k] } else { fb[k - $ni] };
                    kani::assume(c >= b'0' && c <= b'9');
                    let d = (c - b'0') as u64;
                    if d != 0 {
                        started = true;
                    }
                    if started {
                        if count < cap {
                            value = value * 10 + d;
                            count += 1;
                        } else if d != 0 {
                            sticky = true;
                        }
                    }
                }
                k += 1;
            }
            if sticky {
                value = value * 10 + 1;
                count += 1;
            }
            let num = Number {
                exponent: 0,
                mantissa: 0,
                is_negative: false,
                many_digits: true,
                integer: &ib[..ni],
                fraction: if has_frac { Some(&fb[..nf]) } else { None },
            };
            let (big, n) = lexical_parse_float::slow::parse_mantissa::<STANDARD>(num, cap);
            assert!(n == count, "significant digit count");
            let limbs: &[lexical_parse_float::bigint::Limb] = &big.data;
            if value == 0 {
                assert!(limbs.len() == 0 || (limbs.len() == 1 && limbs[0] == 0), "zero mantissa");
            } else {
                assert!(limbs.len() == 1 && limbs[0] as u64 == value, "big-integer mantissa differs from the truncated digits plus sticky digit");
            }
            kani::cover!(sticky && ni > 0 && nf > 0, "digits dropped with a fraction present");
            kani::cover!(count == cap && !sticky, "cap reached exactly");
            kani::cover!(count < cap && count > 0, "cap not reached");
            core::mem::forget(big);
        }
    };
}
mant!(mant_2_2, 2, 2, 2, 8);
mant!(mant_3_3, 3, 3, 4, 12);
