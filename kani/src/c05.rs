//! C05: power-of-two radix string -> float is correctly rounded (integer-shift code only).
use crate::refs::*;
use core::num::NonZeroU8;
use lexical_core as lc;
use lexical_core::NumberFormatBuilder;
use lexical_parse_float::float::{extended_to_float, ExtendedFloat80};
use lexical_parse_float::number::Number;

/// IEEE bits of the float nearest (ties to even) to mantissa * 2^e2, for a binary format
/// with `p` explicit mantissa bits and minimum normal exponent `emin` (maximum `emax`).
/// Also reports whether the input lies exactly half way with an even kept part.
fn nearest_bits(mantissa: u64, e2: i64, p: u32, emin: i64, emax: i64) -> (u64, bool) {
    let lz = mantissa.leading_zeros();
    let m = mantissa << lz;
    let e = e2 + 63 - lz as i64; // exponent of the leading bit
    let inf = ((emax + 1 - emin + 1) as u64) << p;
    if e > emax {
        return (inf, false);
    }
    let base_shift = 63 - p as i64;
    let shift = if e >= emin { base_shift } else { base_shift + (emin - e) };
    if shift >= 65 {
        return (0, false);
    }
    let (kept, rem, half): (u64, u128, u128) = if shift == 64 {
        (0, m as u128, 1u128 << 63)
    } else {
        (m >> shift, (m & ((1u64 << shift) - 1)) as u128, 1u128 << (shift - 1))
    };
    let halfway_even = rem == half && (kept & 1) == 0;
    let mut k = kept;
    if rem > half || (rem == half && (kept & 1) == 1) {
        k += 1;
    }
    let hidden = 1u64 << p;
    if e >= emin {
        let mut eb = (e - emin + 1) as u64;
        if k >= (hidden << 1) {
            k >>= 1;
            eb += 1;
        }
        if eb >= (emax - emin + 2) as u64 {
            return (inf, halfway_even);
        }
        ((eb << p) | (k & (hidden - 1)), halfway_even)
    } else if k >= hidden {
        ((1u64 << p) | (k & (hidden - 1)), halfway_even)
    } else {
        (k, halfway_even)
    }
}

macro_rules! bin {
    ($name:ident, $f:ident, $p:expr, $emin:expr, $emax:expr, $radix:expr, $base:expr, $elo:expr, $ehi:expr) => {
        /// `binary::binary` on a symbolic Number: all 64-bit mantissas, exponents across zero /
        /// subnormal / normal / infinite results, against the shift-based oracle.
        #[kani::proof]
        fn $name() {
            const FMT: u128 = NumberFormatBuilder::new()
                .mantissa_radix($radix)
                .exponent_base(NonZeroU8::new($base))
                .exponent_radix(NonZeroU8::new(10))
                .build_strict();
            let mantissa: u64 = kani::any();
            let exponent: i64 = kani::any();
            let many: bool = kani::any();
            let lossy: bool = kani::any();
            kani::assume(mantissa != 0);
            kani::assume(exponent >= $elo && exponent <= $ehi);
            let num = Number { exponent, mantissa, is_negative: false, many_digits: many, integer: &[], fraction: None };
            let fp = lexical_parse_float::binary::binary::<$f, FMT>(&num, lossy);
            let log2b: i64 = match $base { 2 => 1, 4 => 2, 8 => 3, 16 => 4, _ => 5 };
            let (want, halfway_even) = nearest_bits(mantissa, exponent * log2b, $p, $emin, $emax);
            if fp.exp < 0 {
                // error marker = "ask the slow path": only legal when digits were truncated and the
                // exact algorithm was requested (falling back more often than needed is allowed)
                assert!(many && !lossy, "error marker although the mantissa is exact / lossy was requested");
            } else {
                let got = extended_to_float::<$f>(fp);
                if lossy && many && halfway_even {
                    // lossy: the truncated digits are ignored, result is the lower neighbour (the tie rounds to even)
                    assert!(got.to_bits() as u64 == want);
                } else {
                    assert!(got.to_bits() as u64 == want, "not the nearest float (ties to even)");
                }
            }
            kani::cover!(fp.exp >= 0 && want == 0, "rounds to zero");
            kani::cover!(fp.exp >= 0 && want == 1, "rounds to the smallest subnormal");
            kani::cover!(fp.exp >= 0 && want >> $p == 0 && want > 1, "subnormal");
            kani::cover!(fp.exp < 0, "error marker");
        }
    };
}
// f64: p=52, emin=-1022, emax=1023 ; f32: p=23, emin=-126, emax=127
bin!(bin_f64_r16, f64, 52, -1022, 1023, 16, 16, -300, 300);
bin!(bin_f64_r2, f64, 52, -1022, 1023, 2, 2, -1200, 1100);
bin!(bin_f64_r4, f64, 52, -1022, 1023, 4, 4, -600, 560);
bin!(bin_f64_r8, f64, 52, -1022, 1023, 8, 8, -400, 380);
bin!(bin_f64_r32, f64, 52, -1022, 1023, 32, 32, -240, 230);
bin!(bin_f32_r16, f32, 23, -126, 127, 16, 16, -60, 50);
bin!(bin_f32_r2, f32, 23, -126, 127, 2, 2, -230, 200);
bin!(bin_f32_r8, f32, 23, -126, 127, 8, 8, -80, 70);
// mixed mantissa radix / exponent base
bin!(bin_f64_r16_b2, f64, 52, -1022, 1023, 16, 2, -1200, 1100);
bin!(bin_f64_r4_b2, f64, 52, -1022, 1023, 4, 2, -1200, 1100);
bin!(bin_f64_r8_b2, f64, 52, -1022, 1023, 8, 2, -1200, 1100);
bin!(bin_f64_r32_b2, f64, 52, -1022, 1023, 32, 2, -1200, 1100);
bin!(bin_f64_r16_b4, f64, 52, -1022, 1023, 16, 4, -600, 560);
bin!(bin_f32_r16_b2, f32, 23, -126, 127, 16, 2, -230, 200);

/// End to end on short hex strings: the public API on `digits ^ [-] digits`.
macro_rules! hexparse {
    ($name:ident, $f:ident, $p:expr, $emin:expr, $emax:expr) => {
        #[kani::proof]
        #[kani::unwind(9)]
        fn $name() {
            const FMT: u128 = NumberFormatBuilder::from_radix(16);
            let opts = lc::ParseFloatOptions::from_radix(16);
            // mantissa: 1..=3 hex digits, exponent: sign + 3 hex digits
            let d: [u8; 3] = kani::any();
            let nd: usize = kani::any();
            kani::assume(nd >= 1 && nd <= 3);
            let e: [u8; 3] = kani::any();
            let eneg: bool = kani::any();
            let mut buf = [0u8; 8];
            let mut n = 0;
            let mut mant: u64 = 0;
            let mut k = 0;
            while k < 3 {
                if k < nd {
                    kani::assume(digit(d[k], 16).is_some());
                    buf[n] = d[k];
                    mant = mant * 16 + digit(d[k], 16).unwrap() as u64;
                    n += 1;
                }
                k += 1;
            }
            kani::assume(mant != 0);
            buf[n] = b'^';
            n += 1;
            if eneg {
                buf[n] = b'-';
                n += 1;
            }
            let mut ev: i64 = 0;
            k = 0;
            while k < 3 {
                kani::assume(digit(e[k], 16).is_some());
                buf[n] = e[k];
                ev = ev * 16 + digit(e[k], 16).unwrap() as i64;
                n += 1;
                k += 1;
            }
            if eneg {
                ev = -ev;
            }
            let got = lc::parse_with_options::<$f, FMT>(&buf[..n], &opts);
            let (want, _) = nearest_bits(mant, ev * 4, $p, $emin, $emax);
            match got {
                Ok(v) => assert!(v.to_bits() as u64 == want, "hex string not correctly rounded"),
                Err(_) => assert!(false, "well-formed hex float rejected"),
            }
            kani::cover!(want == 1, "smallest subnormal");
            kani::cover!(want == 0, "underflow to zero");
        }
    };
}
hexparse!(hexparse_f64, f64, 52, -1022, 1023);
hexparse!(hexparse_f32, f32, 23, -126, 127);
