//! Monomorphic one-line wrappers around lexical kernels. Their MIR (dumped with
//! the nightly toolchain, MIR inliner on) is what Engine S encodes.
#![allow(unused)]
use lexical_parse_float::float::ExtendedFloat80;

#[inline(never)]
pub fn from_u8(n: u8, buf: &mut [u8]) -> usize {
    lexical_write_integer::jeaiii::from_u8(n, buf)
}
#[inline(never)]
pub fn from_u16(n: u16, buf: &mut [u8]) -> usize {
    lexical_write_integer::jeaiii::from_u16(n, buf)
}
#[inline(never)]
pub fn from_u32(n: u32, buf: &mut [u8]) -> usize {
    lexical_write_integer::jeaiii::from_u32(n, buf)
}
#[inline(never)]
pub fn from_u64(n: u64, buf: &mut [u8]) -> usize {
    lexical_write_integer::jeaiii::from_u64(n, buf)
}
#[inline(never)]
pub fn from_i64(n: u64, buf: &mut [u8]) -> usize {
    lexical_write_integer::jeaiii::from_i64(n, buf)
}
#[inline(never)]
pub fn from_u128(n: u128, buf: &mut [u8]) -> usize {
    lexical_write_integer::jeaiii::from_u128(n, buf)
}
#[inline(never)]
pub fn compute_float_f64(q: i64, w: u64, lossy: bool) -> ExtendedFloat80 {
    lexical_parse_float::lemire::compute_float::<f64>(q, w, lossy)
}
#[inline(never)]
pub fn compute_float_f32(q: i64, w: u64, lossy: bool) -> ExtendedFloat80 {
    lexical_parse_float::lemire::compute_float::<f32>(q, w, lossy)
}

/// Native-driver dispatch for kernels added after the first batch.
pub mod extra {
    pub fn call(kernel: &str, a: &[&str]) -> String {
        match kernel {
            "lemire_lossy_rel_f64" => format!("{}", super::lemire_lossy_rel_f64(a[0].parse().unwrap(), a[1].parse().unwrap()) as u8),
            "lemire_lossy_rel_f32" => format!("{}", super::lemire_lossy_rel_f32(a[0].parse().unwrap(), a[1].parse().unwrap()) as u8),
            _ => format!("UNKNOWN-KERNEL {}", kernel),
        }
    }
}

/// Relational wrapper: lossy vs exact Eisel-Lemire (C19).
#[inline(never)]
pub fn lemire_lossy_rel_f64(q: i64, w: u64) -> bool {
    let a = lexical_parse_float::lemire::compute_float::<f64>(q, w, true);
    let b = lexical_parse_float::lemire::compute_float::<f64>(q, w, false);
    b.exp < 0 || (a.mant == b.mant && a.exp == b.exp)
}
#[inline(never)]
pub fn lemire_lossy_rel_f32(q: i64, w: u64) -> bool {
    let a = lexical_parse_float::lemire::compute_float::<f32>(q, w, true);
    let b = lexical_parse_float::lemire::compute_float::<f32>(q, w, false);
    b.exp < 0 || (a.mant == b.mant && a.exp == b.exp)
}
