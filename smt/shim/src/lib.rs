//! Monomorphic one-line wrappers around lexical kernels. Their MIR (dumped with
//! the nightly toolchain, MIR inliner on) is what Engine S encodes.
#![allow(unused)]
use lexical_parse_float::float::ExtendedFloat80;

#[inline(never)]
pub fn from_u8(n: u8, buf: &mut [u8]) -> usize {
    lexical_write_integer::jeaiii::from_u8(n, buf)
}
#[inline(never)]
pub fn from_u16(n: u16, buf: &mut [u8]) -> usize {
    lexical_write_integer::jeaiii::from_u16(n, buf)
}
#[inline(never)]
pub fn from_u32(n: u32, buf: &mut [u8]) -> usize {
    lexical_write_integer::jeaiii::from_u32(n, buf)
}
#[inline(never)]
pub fn from_u64(n: u64, buf: &mut [u8]) -> usize {
    lexical_write_integer::jeaiii::from_u64(n, buf)
}
#[inline(never)]
pub fn from_i64(n: u64, buf: &mut [u8]) -> usize {
    lexical_write_integer::jeaiii::from_i64(n, buf)
}
#[inline(never)]
pub fn from_u128(n: u128, buf: &mut [u8]) -> usize {
    lexical_write_integer::jeaiii::from_u128(n, buf)
}
#[inline(never)]
pub fn compute_float_f64(q: i64, w: u64, lossy: bool) -> ExtendedFloat80 {
    lexical_parse_float::lemire::compute_float::<f64>(q, w, lossy)
}
#[inline(never)]
pub fn compute_float_f32(q: i64, w: u64, lossy: bool) -> ExtendedFloat80 {
    lexical_parse_float::lemire::compute_float::<f32>(q, w, lossy)
}

/// Native-driver dispatch for kernels added after the first batch.
pub mod extra {
    pub fn call(kernel: &str, a: &[&str]) -> String {
        match kernel {
            "lemire_lossy_rel_f64" => format!("{}", super::lemire_lossy_rel_f64(a[0].parse().unwrap(), a[1].parse().unwrap()) as u8),
            "lemire_lossy_rel_f32" => format!("{}", super::lemire_lossy_rel_f32(a[0].parse().unwrap(), a[1].parse().unwrap()) as u8),
            "to_decimal_f32" => {
                let r = super::to_decimal_f32(a[0].parse().unwrap());
                format!("{} {}", r.mant, r.exp)
            },
            "to_decimal_f64" => {
                let r = super::to_decimal_f64(a[0].parse().unwrap());
                format!("{} {}", r.mant, r.exp)
            },
            "dbx_normal_f32" => {
                let r = super::dbx_normal_f32(a[0].parse().unwrap());
                format!("{} {}", r.mant, r.exp)
            },
            "dbx_normal_f64" => {
                let r = super::dbx_normal_f64(a[0].parse().unwrap());
                format!("{} {}", r.mant, r.exp)
            },
            "dbx_shorter_f32" => {
                let r = super::dbx_shorter_f32(a[0].parse().unwrap());
                format!("{} {}", r.mant, r.exp)
            },
            "dbx_shorter_f64" => {
                let r = super::dbx_shorter_f64(a[0].parse().unwrap());
                format!("{} {}", r.mant, r.exp)
            },
            "tm::tm__f32__DragonboxFloat__remove_trailing_zeros" => {
                let r = super::tm::tm__f32__DragonboxFloat__remove_trailing_zeros(a[0].parse().unwrap());
                format!("{} {}", r.0, r.1)
            },
            "tm::tm__f64__DragonboxFloat__remove_trailing_zeros" => {
                let r = super::tm::tm__f64__DragonboxFloat__remove_trailing_zeros(a[0].parse().unwrap());
                format!("{} {}", r.0, r.1)
            },
            "lemire_f64" => {
                let r = super::lemire_f64(a[0].parse().unwrap(), a[1].parse().unwrap(), a[2].parse::<u8>().unwrap() != 0, a[3].parse::<u8>().unwrap() != 0);
                format!("{} {}", r.mant, r.exp)
            },
            "lemire_f32" => {
                let r = super::lemire_f32(a[0].parse().unwrap(), a[1].parse().unwrap(), a[2].parse::<u8>().unwrap() != 0, a[3].parse::<u8>().unwrap() != 0);
                format!("{} {}", r.mant, r.exp)
            },
            "max_digits_f64" => format!("{}", super::max_digits_f64(a[0].parse().unwrap())),
            "max_digits_f32" => format!("{}", super::max_digits_f32(a[0].parse().unwrap())),
            _ => format!("UNKNOWN-KERNEL {}", kernel),
        }
    }
}

/// Relational wrapper: lossy vs exact Eisel-Lemire (C19).
#[inline(never)]
pub fn lemire_lossy_rel_f64(q: i64, w: u64) -> bool {
    let a = lexical_parse_float::lemire::compute_float::<f64>(q, w, true);
    let b = lexical_parse_float::lemire::compute_float::<f64>(q, w, false);
    b.exp < 0 || (a.mant == b.mant && a.exp == b.exp)
}
#[inline(never)]
pub fn lemire_lossy_rel_f32(q: i64, w: u64) -> bool {
    let a = lexical_parse_float::lemire::compute_float::<f32>(q, w, true);
    let b = lexical_parse_float::lemire::compute_float::<f32>(q, w, false);
    b.exp < 0 || (a.mant == b.mant && a.exp == b.exp)
}

/// Dragonbox front end (C02): float bits -> shortest decimal (mant, exp).
#[inline(never)]
pub fn to_decimal_f32(bits: u32) -> lexical_write_float::float::ExtendedFloat80 {
    lexical_write_float::algorithm::to_decimal(f32::from_bits(bits))
}
#[inline(never)]
pub fn to_decimal_f64(bits: u64) -> lexical_write_float::float::ExtendedFloat80 {
    lexical_write_float::algorithm::to_decimal(f64::from_bits(bits))
}
#[inline(never)]
pub fn dbx_normal_f32(bits: u32) -> lexical_write_float::float::ExtendedFloat80 {
    lexical_write_float::algorithm::compute_nearest_normal(f32::from_bits(bits))
}
#[inline(never)]
pub fn dbx_normal_f64(bits: u64) -> lexical_write_float::float::ExtendedFloat80 {
    lexical_write_float::algorithm::compute_nearest_normal(f64::from_bits(bits))
}
#[inline(never)]
pub fn dbx_shorter_f32(bits: u32) -> lexical_write_float::float::ExtendedFloat80 {
    lexical_write_float::algorithm::compute_nearest_shorter(f32::from_bits(bits))
}
#[inline(never)]
pub fn dbx_shorter_f64(bits: u64) -> lexical_write_float::float::ExtendedFloat80 {
    lexical_write_float::algorithm::compute_nearest_shorter(f64::from_bits(bits))
}

/// Monomorphic instances of trait methods that the MIR inliner leaves as calls
/// (`<f64 as DragonboxFloat>::compute_mul` ...). Engine S resolves such a call to the
/// wrapper `tm__<type>__<Trait>__<method>`, whose MIR has the real body inlined.
#[allow(non_snake_case)]
pub mod tm {
    use lexical_util::num::Float;
    use lexical_write_float::algorithm::DragonboxFloat;
    macro_rules! inst {
        ($f:ty, $power:ty, $n1:ident, $n2:ident, $n3:ident, $n4:ident, $n5:ident, $n6:ident, $n7:ident, $n8:ident, $n9:ident, $n10:ident, $n11:ident, $n12:ident, $n13:ident) => {
            #[inline(never)]
            pub fn $n1(e: i32) -> $power {
                unsafe { <$f as DragonboxFloat>::dragonbox_power(e) }
            }
            #[inline(never)]
            pub fn $n2(p: &$power, b: i32) -> u64 {
                <$f as DragonboxFloat>::compute_left_endpoint(p, b)
            }
            #[inline(never)]
            pub fn $n3(p: &$power, b: i32) -> u64 {
                <$f as DragonboxFloat>::compute_right_endpoint(p, b)
            }
            #[inline(never)]
            pub fn $n4(p: &$power, b: i32) -> u64 {
                <$f as DragonboxFloat>::compute_round_up(p, b)
            }
            #[inline(never)]
            pub fn $n5(u: u64, p: &$power) -> (u64, bool) {
                <$f as DragonboxFloat>::compute_mul(u, p)
            }
            #[inline(never)]
            pub fn $n6(t: u64, p: &$power, b: i32) -> (bool, bool) {
                <$f as DragonboxFloat>::compute_mul_parity(t, p, b)
            }
            #[inline(never)]
            pub fn $n7(p: &$power, b: i32) -> u32 {
                <$f as DragonboxFloat>::compute_delta(p, b)
            }
            #[inline(never)]
            pub fn $n8(m: u64, e: i32) -> (u64, i32) {
                <$f as DragonboxFloat>::process_trailing_zeros(m, e)
            }
            #[inline(never)]
            pub fn $n9(n: u32) -> (u32, bool) {
                <$f as DragonboxFloat>::check_div_pow10(n)
            }
            #[inline(never)]
            pub fn $n10(n: u64, e: u32, m: u64) -> u64 {
                <$f as DragonboxFloat>::divide_by_pow10(n, e, m)
            }
            #[inline(never)]
            pub fn $n11(x: $f) -> i32 {
                <$f as Float>::exponent(x)
            }
            #[inline(never)]
            pub fn $n12(m: u64) -> usize {
                <$f as DragonboxFloat>::digit_count(m)
            }
            #[inline(never)]
            pub fn $n13(m: u64) -> (u64, i32) {
                <$f as DragonboxFloat>::remove_trailing_zeros(m)
            }
        };
    }
    inst!(f32, u64, tm__f32__DragonboxFloat__dragonbox_power, tm__f32__DragonboxFloat__compute_left_endpoint, tm__f32__DragonboxFloat__compute_right_endpoint,
        tm__f32__DragonboxFloat__compute_round_up, tm__f32__DragonboxFloat__compute_mul, tm__f32__DragonboxFloat__compute_mul_parity, tm__f32__DragonboxFloat__compute_delta,
        tm__f32__DragonboxFloat__process_trailing_zeros, tm__f32__DragonboxFloat__check_div_pow10, tm__f32__DragonboxFloat__divide_by_pow10, tm__f32__Float__exponent,
        tm__f32__DragonboxFloat__digit_count, tm__f32__DragonboxFloat__remove_trailing_zeros);
    inst!(f64, (u64, u64), tm__f64__DragonboxFloat__dragonbox_power, tm__f64__DragonboxFloat__compute_left_endpoint, tm__f64__DragonboxFloat__compute_right_endpoint,
        tm__f64__DragonboxFloat__compute_round_up, tm__f64__DragonboxFloat__compute_mul, tm__f64__DragonboxFloat__compute_mul_parity, tm__f64__DragonboxFloat__compute_delta,
        tm__f64__DragonboxFloat__process_trailing_zeros, tm__f64__DragonboxFloat__check_div_pow10, tm__f64__DragonboxFloat__divide_by_pow10, tm__f64__Float__exponent,
        tm__f64__DragonboxFloat__digit_count, tm__f64__DragonboxFloat__remove_trailing_zeros);
}

/// Monomorphic instances of generic free functions left as calls by the MIR inliner.
pub mod mono {
    use lexical_parse_float::float::ExtendedFloat80 as PF80;
    #[inline(never)]
    pub fn compute_float__f64(q: i64, w: u64, lossy: bool) -> PF80 {
        lexical_parse_float::lemire::compute_float::<f64>(q, w, lossy)
    }
    #[inline(never)]
    pub fn compute_float__f32(q: i64, w: u64, lossy: bool) -> PF80 {
        lexical_parse_float::lemire::compute_float::<f32>(q, w, lossy)
    }
    #[inline(never)]
    pub fn compute_error__f64(q: i64, w: u64) -> PF80 {
        lexical_parse_float::lemire::compute_error::<f64>(q, w)
    }
    #[inline(never)]
    pub fn compute_error__f32(q: i64, w: u64) -> PF80 {
        lexical_parse_float::lemire::compute_error::<f32>(q, w)
    }
    #[inline(never)]
    pub fn compute_error_scaled__f64(q: i64, w: u64, lz: i32) -> PF80 {
        lexical_parse_float::lemire::compute_error_scaled::<f64>(q, w, lz)
    }
    #[inline(never)]
    pub fn compute_error_scaled__f32(q: i64, w: u64, lz: i32) -> PF80 {
        lexical_parse_float::lemire::compute_error_scaled::<f32>(q, w, lz)
    }
    #[inline(never)]
    pub fn is_left_endpoint__f32(e: i32) -> bool {
        lexical_write_float::algorithm::is_left_endpoint::<f32>(e)
    }
    #[inline(never)]
    pub fn is_left_endpoint__f64(e: i32) -> bool {
        lexical_write_float::algorithm::is_left_endpoint::<f64>(e)
    }
    #[inline(never)]
    pub fn is_right_endpoint__f32(e: i32) -> bool {
        lexical_write_float::algorithm::is_right_endpoint::<f32>(e)
    }
    #[inline(never)]
    pub fn is_right_endpoint__f64(e: i32) -> bool {
        lexical_write_float::algorithm::is_right_endpoint::<f64>(e)
    }
}

/// The Eisel-Lemire wrapper including the truncated-digits second pass (C19).
#[inline(never)]
pub fn lemire_f64(mantissa: u64, exponent: i64, many_digits: bool, lossy: bool) -> ExtendedFloat80 {
    let num = lexical_parse_float::number::Number {
        exponent,
        mantissa,
        is_negative: false,
        many_digits,
        integer: &[],
        fraction: None,
    };
    lexical_parse_float::lemire::lemire::<f64>(&num, lossy)
}
#[inline(never)]
pub fn lemire_f32(mantissa: u64, exponent: i64, many_digits: bool, lossy: bool) -> ExtendedFloat80 {
    let num = lexical_parse_float::number::Number {
        exponent,
        mantissa,
        is_negative: false,
        many_digits,
        integer: &[],
        fraction: None,
    };
    lexical_parse_float::lemire::lemire::<f32>(&num, lossy)
}

/// Significant-digit cap of the big-integer slow path (C01/C05); None is reported as u64::MAX.
#[inline(never)]
pub fn max_digits_f64(radix: u32) -> u64 {
    match lexical_parse_float::limits::f64_max_digits(radix) {
        Some(n) => n as u64,
        None => u64::MAX,
    }
}
#[inline(never)]
pub fn max_digits_f32(radix: u32) -> u64 {
    match lexical_parse_float::limits::f32_max_digits(radix) {
        Some(n) => n as u64,
        None => u64::MAX,
    }
}
