//! Native driver: calls the same monomorphic wrappers whose MIR Engine S encodes.
//! Used (a) to validate the MIR->SMT translation on concrete inputs and
//! (b) to replay solver models against the real code before reporting.
use std::io::BufRead;

fn hex(b: &[u8]) -> String {
    b.iter().map(|x| format!("{:02x}", x)).collect()
}

fn p<T: std::str::FromStr>(s: &str) -> T
where
    T::Err: std::fmt::Debug,
{
    s.parse::<T>().unwrap()
}

fn call(kernel: &str, a: &[&str]) -> String {
    let mut buf = [0xAAu8; 64];
    match kernel {
        "from_u8" => {
            let n = lexshim::from_u8(p(a[0]), &mut buf[..p::<usize>(a[1])]);
            format!("{} {}", n, hex(&buf[..n]))
        },
        "from_u16" => {
            let n = lexshim::from_u16(p(a[0]), &mut buf[..p::<usize>(a[1])]);
            format!("{} {}", n, hex(&buf[..n]))
        },
        "from_u32" => {
            let n = lexshim::from_u32(p(a[0]), &mut buf[..p::<usize>(a[1])]);
            format!("{} {}", n, hex(&buf[..n]))
        },
        "from_u64" => {
            let n = lexshim::from_u64(p(a[0]), &mut buf[..p::<usize>(a[1])]);
            format!("{} {}", n, hex(&buf[..n]))
        },
        "from_i64" => {
            let n = lexshim::from_i64(p(a[0]), &mut buf[..p::<usize>(a[1])]);
            format!("{} {}", n, hex(&buf[..n]))
        },
        "from_u128" => {
            let n = lexshim::from_u128(p(a[0]), &mut buf[..p::<usize>(a[1])]);
            format!("{} {}", n, hex(&buf[..n]))
        },
        "compute_float_f64" => {
            let r = lexshim::compute_float_f64(p(a[0]), p(a[1]), p::<u8>(a[2]) != 0);
            format!("{} {}", r.mant, r.exp)
        },
        "compute_float_f32" => {
            let r = lexshim::compute_float_f32(p(a[0]), p(a[1]), p::<u8>(a[2]) != 0);
            format!("{} {}", r.mant, r.exp)
        },
        _ => lexshim::extra::call(kernel, a),
    }
}

fn guarded(kernel: &str, a: &[&str]) -> String {
    let k = kernel.to_string();
    let av: Vec<String> = a.iter().map(|s| s.to_string()).collect();
    let r = std::panic::catch_unwind(move || {
        let refs: Vec<&str> = av.iter().map(|s| s.as_str()).collect();
        call(&k, &refs)
    });
    match r {
        Ok(s) => s,
        Err(_) => "PANIC".to_string(),
    }
}

fn main() {
    std::panic::set_hook(Box::new(|_| {}));
    let args: Vec<String> = std::env::args().collect();
    if args[1] == "--batch" {
        let kernel = args[2].clone();
        for line in std::io::stdin().lock().lines() {
            let line = line.unwrap();
            let parts: Vec<&str> = line.split_whitespace().collect();
            if parts.is_empty() {
                continue;
            }
            println!("{}", guarded(&kernel, &parts));
        }
    } else {
        let refs: Vec<&str> = args[2..].iter().map(|s| s.as_str()).collect();
        println!("{}", guarded(&args[1], &refs));
    }
}
