"""Discharge a query (conjunction of z3 terms) with external SMT solvers.

Strategy order is configurable per query: the cvc5 integer encoding
(`--solve-bv-as-int=sum`, keeps mod-2^k semantics) decides multiply/shift/divide-
by-constant kernels in about a second where bit-blasting stalls; z3 (5.1 as
`z3-new`, 4.8.12 as `z3`) and plain cvc5 bit-blast the narrow ones.
"""
import os
import re
import subprocess
import tempfile
import time

import z3

SOLVERS = {
    "cvc5-int": ["cvc5", "--lang", "smt2", "--solve-bv-as-int=sum", "--produce-models"],
    "cvc5-int-bv": ["cvc5", "--lang", "smt2", "--solve-bv-as-int=bv", "--produce-models"],
    "cvc5": ["cvc5", "--lang", "smt2", "--produce-models"],
    "z3-new": ["z3-new", "-smt2"],
    "z3": ["/usr/bin/z3", "-smt2"],
}


def to_smt2(assertions, get_values):
    s = z3.Solver()
    for a in assertions:
        s.add(a)
    text = s.to_smt2()
    text = text.replace("bvudiv_i", "bvudiv").replace("bvurem_i", "bvurem").replace("bvsdiv_i", "bvsdiv") \
               .replace("bvsrem_i", "bvsrem").replace("bvsmod_i", "bvsmod")
    text = re.sub(r"\(set-info :status \w+\)\n", "", text)
    head = "(set-logic ALL)\n(set-option :produce-models true)\n"
    tail = ""
    declared = set(re.findall(r"\(declare-fun (\|?[^\s|]+\|?) ", text))
    gv = [g for g in (get_values or []) if g in declared]
    if gv:
        tail = "(get-value (%s))\n" % " ".join(gv)
    return head + text + tail


def run_solver(name, text, timeout_s):
    cmd = list(SOLVERS[name])
    if name.startswith("cvc5"):
        cmd += ["--tlimit=%d" % int(timeout_s * 1000)]
    else:
        cmd += ["-T:%d" % int(timeout_s)]
    with tempfile.NamedTemporaryFile("w", suffix=".smt2", delete=False, dir=os.environ.get("VERIF_SMT_TMP")) as f:
        f.write(text)
        path = f.name
    t0 = time.time()
    try:
        p = subprocess.run(cmd + [path], capture_output=True, text=True, timeout=timeout_s + 10)
        out = p.stdout + p.stderr
    except subprocess.TimeoutExpired:
        out = "timeout"
    finally:
        os.unlink(path)
    dt = time.time() - t0
    # an (error line makes the answer untrustworthy - except the expected complaint of
    # `(get-value)` after an `unsat` verdict
    errs = [l for l in out.split("\n") if l.startswith("(error") or "Parse Error" in l or "Fatal" in l]
    errs = [l for l in errs if "Cannot get value unless after a SAT" not in l and "model is not available" not in l]
    if errs:
        return "error", out[:500], dt
    first = out.strip().split("\n")[0].strip() if out.strip() else ""
    if first == "unsat":
        return "unsat", out, dt
    if first == "sat":
        return "sat", out, dt
    return "unknown", out[:300], dt


def parse_values(out):
    """Parse `(get-value)` output: ((x #x..) (y #b..)) -> {name: int}"""
    vals = {}
    for m in re.finditer(r"\((\|?[\w!.#']+\|?) (#x[0-9a-fA-F]+|#b[01]+|true|false|\(_ bv(\d+) \d+\))\)", out):
        name, v = m.group(1).strip("|"), m.group(2)
        if v.startswith("#x"):
            vals[name] = int(v[2:], 16)
        elif v.startswith("#b"):
            vals[name] = int(v[2:], 2)
        elif v in ("true", "false"):
            vals[name] = 1 if v == "true" else 0
        else:
            vals[name] = int(m.group(3))
    return vals


def prepare(assertions, inputs):
    """z3 term -> SMT-LIB text. NOT thread-safe (z3 context): call from the main thread."""
    for a in assertions:
        if z3.is_false(a):
            return None
    return to_smt2(assertions, inputs)


def check(assertions, inputs, strategies=("cvc5-int", "z3-new", "cvc5"), timeout_s=60):
    return check_text(prepare(assertions, inputs), strategies, timeout_s)


OBLIGATION_STAGES = (("cvc5", 4), ("cvc5-int", 8), ("z3-new", 20), ("cvc5", None), ("cvc5-int", None), ("z3-new", None))
PROPERTY_STAGES = (("cvc5-int", 45), ("cvc5", 10), ("z3-new", 20), ("cvc5-int", None), ("z3-new", None), ("cvc5", None))


def check_text(text, strategies=("cvc5-int", "z3-new", "cvc5"), timeout_s=60):
    """Return dict(status=unsat|sat|unknown|error, model, solver, solver_s, tried)."""
    if text is None:
        # a literally-false conjunct: trivially unsatisfiable
        return {"status": "unsat", "model": None, "solver": "syntactic", "solver_s": 0.0, "tried": []}
    tried = []
    total = 0.0
    for s in strategies:
        tmo = timeout_s
        if isinstance(s, tuple):
            s, tmo = s[0], (s[1] if s[1] is not None else timeout_s)
            tmo = min(tmo, timeout_s)
        st, out, dt = run_solver(s, text, tmo)
        total += dt
        tried.append((s, st, round(dt, 2)))
        if st == "unsat":
            return {"status": "unsat", "model": None, "solver": s, "solver_s": total, "tried": tried}
        if st == "sat":
            return {"status": "sat", "model": parse_values(out), "solver": s, "solver_s": total, "tried": tried}
    return {"status": "unknown", "model": None, "solver": None, "solver_s": total, "tried": tried}


def cross_check(assertions, a="cvc5-int", b="z3-new", timeout_s=60):
    """Run two solvers on the same query and report whether they agree."""
    text = to_smt2(assertions, [])
    ra = run_solver(a, text, timeout_s)
    rb = run_solver(b, text, timeout_s)
    agree = ra[0] == rb[0] or "unknown" in (ra[0], rb[0])
    return agree, ra[0], rb[0]
