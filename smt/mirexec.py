"""Symbolic executor for (a subset of) rustc MIR, producing z3 terms.

Engine S of /verif: the MIR text is dumped from /repo's current sources on every
run; this module executes declared kernel functions path-wise with symbolic
integer inputs.  Every MIR `assert`, every reachable panic call, every `assume`
and every element access becomes an *obligation*; the caller adds the functional
property.  Anything not modelled raises Unsupported (=> the check is
inconclusive, never a pass).
"""
import re
import z3

from mirparse import split_top

INT_TYPES = {
    "u8": (8, False), "i8": (8, True), "u16": (16, False), "i16": (16, True),
    "u32": (32, False), "i32": (32, True), "u64": (64, False), "i64": (64, True),
    "u128": (128, False), "i128": (128, True), "usize": (64, False), "isize": (64, True),
    "char": (32, False),
}


class Unsupported(Exception):
    pass


class _UnwindExceeded(Exception):
    def __init__(self, fr):
        self.fr = fr


# ---------------------------------------------------------------- values
class Int:
    __slots__ = ("ty", "t")

    def __init__(self, ty, t):
        self.ty = ty
        self.t = t

    def __repr__(self):
        return "Int(%s,%s)" % (self.ty, self.t)


class Agg:
    __slots__ = ("fields", "variant", "ty")

    def __init__(self, fields, variant=None, ty=None):
        self.fields = tuple(fields)
        self.variant = variant
        self.ty = ty

    def __repr__(self):
        return "Agg(%s,%s)" % (self.variant, list(self.fields))


class Arr:
    __slots__ = ("elems",)

    def __init__(self, elems):
        self.elems = tuple(elems)


class Ref:
    """Thin pointer/reference to a place."""
    __slots__ = ("place",)

    def __init__(self, place):
        self.place = place


class Slice:
    """Fat pointer: array place, element offset, length."""
    __slots__ = ("arr", "off", "len")

    def __init__(self, arr, off, ln):
        self.arr = arr
        self.off = off
        self.len = ln


class Opaque:
    __slots__ = ("what",)

    def __init__(self, what):
        self.what = what


UNIT = Agg((), None, "()")


def bv(ty, v):
    return Int(ty, z3.BitVecVal(v, INT_TYPES[ty][0]))


def mkbool(b):
    return Int("bool", z3.BoolVal(b) if isinstance(b, bool) else b)


def is_conc(t):
    return z3.is_bv_value(t) or z3.is_true(t) or z3.is_false(t)


def conc(t):
    if z3.is_bv_value(t):
        return t.as_long()
    if z3.is_true(t):
        return 1
    if z3.is_false(t):
        return 0
    return None


_fold_cache = {}


def simp(t):
    """Constant folding only.

    z3's full simplifier rewrites chains like ((y & 0xffffffff) * 100) & 0xffffffff into one
    wrapped 32-bit multiplication by 10^k; that destroys the small-quotient structure the
    integer encoding (cvc5 --solve-bv-as-int) relies on, so only nodes whose operands are all
    concrete are folded, plus trivial boolean/ite identities.
    """
    tid = t.get_id()
    ent = _fold_cache.get(tid)
    if ent is not None:
        return ent[1]
    r = _fold(t)
    # keep both terms alive: z3 recycles AST ids of freed terms
    _fold_cache[tid] = (t, r)
    _fold_cache[r.get_id()] = (r, r)
    return r


def _fold(t):
    if not z3.is_app(t) or t.num_args() == 0:
        return t
    kids = [simp(c) for c in t.children()]
    k = t.decl().kind()
    if all(is_conc(c) for c in kids):
        return z3.simplify(t.decl()(*kids))
    if k == z3.Z3_OP_AND:
        ks = [c for c in kids if not z3.is_true(c)]
        if any(z3.is_false(c) for c in ks):
            return z3.BoolVal(False)
        if not ks:
            return z3.BoolVal(True)
        return ks[0] if len(ks) == 1 else z3.And(ks)
    if k == z3.Z3_OP_OR:
        ks = [c for c in kids if not z3.is_false(c)]
        if any(z3.is_true(c) for c in ks):
            return z3.BoolVal(True)
        if not ks:
            return z3.BoolVal(False)
        return ks[0] if len(ks) == 1 else z3.Or(ks)
    if k == z3.Z3_OP_NOT:
        c = kids[0]
        if z3.is_app(c) and c.decl().kind() == z3.Z3_OP_NOT:
            return c.arg(0)
        return z3.Not(c)
    if k == z3.Z3_OP_ITE:
        if z3.is_true(kids[0]):
            return kids[1]
        if z3.is_false(kids[0]):
            return kids[2]
        if kids[1].eq(kids[2]):
            return kids[1]
    if k == z3.Z3_OP_EQ and kids[0].eq(kids[1]):
        return z3.BoolVal(True)
    if k == z3.Z3_OP_IMPLIES:
        if z3.is_true(kids[0]):
            return kids[1]
        if z3.is_false(kids[0]) or z3.is_true(kids[1]):
            return z3.BoolVal(True)
    if k in (z3.Z3_OP_BADD, z3.Z3_OP_BOR, z3.Z3_OP_BXOR) and len(kids) == 2:
        # x + 0, x | 0, x ^ 0
        for i in (0, 1):
            if z3.is_bv_value(kids[i]) and kids[i].as_long() == 0:
                return kids[1 - i]
    if k == z3.Z3_OP_BMUL and len(kids) == 2:
        for i in (0, 1):
            if z3.is_bv_value(kids[i]) and kids[i].as_long() == 1:
                return kids[1 - i]
            if z3.is_bv_value(kids[i]) and kids[i].as_long() == 0:
                return kids[i]
    if all(a.eq(b) for a, b in zip(kids, t.children())):
        return t
    try:
        return t.decl()(*kids)
    except Exception:
        return t


# ---------------------------------------------------------------- program
class Program:
    """A set of parsed MIR items from several dumps (shim + dependency crates)."""

    def __init__(self):
        self.fns = {}
        self.allocs = {}
        self._const_cache = {}

    def add(self, fns, allocs, crate=None):
        for k, f in fns.items():
            key = (crate + "::" + k) if crate else k
            f.crate = crate
            self.fns[key] = f
        self.allocs.update(allocs)

    def impl_self_type(self, item):
        """Self type of the anonymous `<impl at file:l:c: l:c>` block an item was printed under,
        recovered from `<T as Trait>::` references inside that block's bodies."""
        m = re.search(r"<impl at [^>]+>", item.name)
        if not m:
            return None
        key = (getattr(item, "crate", None), m.group(0))
        cache = self.__dict__.setdefault("_impl_self", {})
        if key not in cache:
            import collections
            cnt = collections.Counter()
            for k, f in self.fns.items():
                if m.group(0) in k and getattr(f, "crate", None) == key[0]:
                    for stmts, term in f.blocks.values():
                        for t in stmts + [term]:
                            for mm in re.finditer(r"<(f32|f64|[iu](?:8|16|32|64|128|size)) as ", t):
                                cnt[mm.group(1)] += 1
                    for _, ty in f.args:
                        if ty in ("f32", "f64"):
                            cnt[ty] += 1
            cache[key] = cnt.most_common(1)[0][0] if cnt else None
        return cache[key]

    def lookup(self, name):
        """Find an item by crate-qualified path (generic arguments ignored).

        Names from `core`/`std` are never resolved here (they must be modelled
        intrinsics); inside a lexical crate a unique module-path suffix is accepted
        because the MIR printer abbreviates impl blocks.
        """
        n = strip_generics(name)
        mm = re.fullmatch(r"([\w:]+)::(\w+)::<(\w+)>", name.strip())
        if mm and ("mono::%s__%s" % (mm.group(2), mm.group(3))) in self.fns:
            return self.fns["mono::%s__%s" % (mm.group(2), mm.group(3))]
        if n in self.fns:
            return self.fns[n]
        # `<T as path::Trait>::method` -> shim wrapper `tm::tm__T__Trait__method`
        m = re.fullmatch(r"<(\w+) as ([\w:]+)>::(\w+)", n)
        if m:
            key = "tm::tm__%s__%s__%s" % (m.group(1), m.group(2).split("::")[-1], m.group(3))
            if key in self.fns:
                return self.fns[key]
        # generic free function instantiated at one float/int type: `path::f::<T>` -> shim `mono::f__T`
        m = re.fullmatch(r"([\w:]+)::(\w+)::<(\w+)>", name.strip())
        if m:
            key = "mono::%s__%s" % (m.group(2), m.group(3))
            if key in self.fns:
                return self.fns[key]
        first = n.split("::")[0]
        if first in ("core", "std", "alloc") or n.startswith("<"):
            return None
        parts = n.split("::")
        cands = [k for k in self.fns if k.split("::")[0] == first and
                 (k.endswith("::" + "::".join(parts[1:])) or k == n)]
        if len(cands) == 1:
            return self.fns[cands[0]]
        # shim-local item (no crate prefix)
        if len(parts) == 1:
            return self.fns.get(n)
        # inherent methods are printed as `mod::<impl at file:l:c: l:c>::method` in the defining
        # crate but as `mod::Type::method` / `mod::<impl Type>::method` at call sites
        last = parts[-1]
        c3 = [k for k in self.fns if k.split("::")[0] == first and k.endswith("::" + last) and "<impl at " in k
              and k.split("::")[1] == parts[1]]
        if len(c3) == 1 and len(parts) >= 3:
            return self.fns[c3[0]]
        # promoted / nested items of generic fns: `a::b::<T>::promoted[0]` vs `a::b::promoted[0]`
        for i in range(1, len(parts) - 1):
            suf = "::".join(parts[i:])
            c2 = [k for k in self.fns if k.split("::")[0] == first and k.endswith("::" + suf)]
            if len(c2) == 1:
                return self.fns[c2[0]]
            if len(c2) > 1:
                return None
        return None


def strip_generics(name):
    """Drop turbofish generic arguments `::<T, U>` but keep `<impl ..>` / `<T as Trait>` segments."""
    out = []
    i = 0
    while i < len(name):
        c = name[i]
        if c == "<" and name[i - 2:i] == "::" and not name.startswith("impl", i + 1):
            depth = 1
            j = i + 1
            while j < len(name) and depth:
                if name[j] == "<":
                    depth += 1
                elif name[j] == ">" and name[j - 1] != "-":
                    depth -= 1
                j += 1
            inner = name[i + 1:j - 1]
            if " as " in inner:
                out.append(name[i:j])
            else:
                if out[-2:] == [":", ":"]:
                    out = out[:-2]
            i = j
            continue
        out.append(c)
        i += 1
    return "".join(out)


# ---------------------------------------------------------------- state
class Frame:
    __slots__ = ("fn", "fid", "block", "idx", "ret_place", "ret_block")

    def __init__(self, fn, fid, ret_place, ret_block):
        self.fn = fn
        self.fid = fid
        self.block = "bb0"
        self.idx = 0
        self.ret_place = ret_place
        self.ret_block = ret_block

    def clone(self):
        f = Frame(self.fn, self.fid, self.ret_place, self.ret_block)
        f.block, f.idx = self.block, self.idx
        return f


class State:
    def __init__(self):
        self.frames = []
        self.mem = {}
        self.pc = []      # branch conditions and preconditions
        self.apc = []     # facts established by passed asserts/assumes (each one is also an obligation)
        self.defs = []    # definitional axioms of fresh variables introduced on this path
        self.tables = {}  # memo of table-read abstractions on this path
        self.divs = []    # (dividend term, divisor value, quotient var, remainder var) introduced on this path
        self.steps = 0
        self.nfid = 0
        self.trace = []
        self.visits = {}

    def clone(self):
        s = State()
        s.frames = [f.clone() for f in self.frames]
        s.mem = dict(self.mem)
        s.pc = list(self.pc)
        s.apc = list(self.apc)
        s.defs = list(self.defs)
        s.tables = self.tables
        s.divs = list(self.divs)
        s.steps = self.steps
        s.nfid = self.nfid
        s.trace = list(self.trace)
        s.visits = dict(self.visits)
        return s


class Obligation:
    def __init__(self, kind, msg, pc, bad, where, apc=(), defs=()):
        self.kind = kind    # assert | panic | assume | bounds | unreachable
        self.msg = msg
        self.pc = pc        # list of z3 bools
        self.apc = list(apc)
        self.defs = list(defs)
        self.bad = bad      # z3 bool: the violating condition
        self.where = where


class PathResult:
    def __init__(self, state, ret):
        self.pc = state.pc
        self.apc = state.apc
        self.defs = state.defs
        self.divs = state.divs
        self.ret = ret
        self.mem = state.mem
        self.trace = state.trace


PANIC_FNS = ("core::panicking::", "std::rt::panic_fmt", "core::slice::index::slice_index_fail",
             "core::slice::index::slice_", "core::option::unwrap_failed", "core::result::unwrap_failed",
             "core::option::expect_failed", "std::rt::begin_panic", "core::str::slice_error_fail",
             "core::panicking::panic", "core::intrinsics::abort")


class Executor:
    def __init__(self, program, max_steps=200000, feas_timeout_ms=1500, max_paths=4000, unwind=None):
        self.p = program
        self.max_steps = max_steps
        self.feas_timeout_ms = feas_timeout_ms
        self.max_paths = max_paths
        self.obligations = []
        self.unwind = unwind    # max visits of one block per frame on a path (None = unbounded)
        self.cur = None         # state being executed (fresh-variable axioms are attached to it)
        self.fresh = 0
        self.nforks = 0
        self._parse_cache = {}
        self.intrinsics = dict(DEFAULT_INTRINSICS)
        self.feas_solver = None
        self.clz_known = {}     # term id -> (term, leading-zero count) pinned by a precondition

    # ---- entry
    def run(self, fname, args, globals_=None):
        """Execute function `fname` on `args` (values). Returns [PathResult]."""
        fn = self.p.lookup(fname)
        if fn is None:
            raise Unsupported("no MIR for function " + fname)
        st = State()
        if globals_:
            st.mem.update(globals_)
        self._push(st, fn, args, None, None)
        work, done = [st], []
        while work:
            s = work.pop()
            res = self._run_path(s, work)
            if res is not None:
                done.append(res)
            if len(done) + len(work) > self.max_paths:
                raise Unsupported("path explosion (> %d paths)" % self.max_paths)
        return done

    def _push(self, st, fn, args, ret_place, ret_block):
        st.nfid += 1
        fr = Frame(fn, st.nfid, ret_place, ret_block)
        if len(args) != len(fn.args):
            raise Unsupported("arity mismatch calling " + fn.name)
        for (nm, ty), v in zip(fn.args, args):
            st.mem[("L", fr.fid, nm)] = v
        st.frames.append(fr)

    # ---- main loop for one path
    def _run_path(self, st, work):
        self.cur = st
        while True:
            st.steps += 1
            if st.steps > self.max_steps:
                raise Unsupported("step budget exceeded (unbounded loop?) in " + st.frames[-1].fn.name)
            fr = st.frames[-1]
            stmts, term = fr.fn.blocks[fr.block]
            while fr.idx < len(stmts):
                self._stmt(st, fr, stmts[fr.idx])
                fr.idx += 1
            try:
                r = self._term(st, fr, term, work)
            except _UnwindExceeded as e:
                # unwinding assertion: reaching the bound again must be impossible
                self._oblige(st, "unwind", "loop unwinding bound %d exceeded" % self.unwind, z3.BoolVal(True), e.fr)
                return None
            if r == "dead":
                return None
            if isinstance(r, PathResult):
                return r

    def _goto(self, fr, bb):
        fr.block, fr.idx = bb, 0
        if self.unwind is not None and self.cur is not None:
            key = (fr.fid, bb)
            n = self.cur.visits.get(key, 0) + 1
            self.cur.visits[key] = n
            if n > self.unwind:
                raise _UnwindExceeded(fr)

    # ---- statements
    def _stmt(self, st, fr, s):
        if s.startswith("assume("):
            c = self._operand(st, fr, s[7:-1])
            self._oblige(st, "assume", "intrinsic assume violated", z3.Not(self._as_bool(c)), fr)
            st.apc.append(self._as_bool(c))
            return
        if s.startswith("StorageLive") or s.startswith("StorageDead") or s == "nop" or s.startswith("FakeRead") \
                or s.startswith("PlaceMention") or s.startswith("Retag") or s.startswith("Coverage") or s == "ConstEvalCounter":
            return
        if s.startswith("copy_nonoverlapping("):
            raise Unsupported("copy_nonoverlapping")
        m = _split_assign(s)
        if not m:
            raise Unsupported("statement: " + s)
        lhs, rhs = m
        if lhs.startswith("discriminant("):
            raise Unsupported("SetDiscriminant")
        self._want_ty = fr.fn.locals.get(lhs) if re.fullmatch(r"_\d+", lhs) else None
        val = self._rvalue(st, fr, rhs)
        self._want_ty = None
        place = self._place(st, fr, lhs)
        self._write(st, place, val, fr)

    # ---- terminators
    def _term(self, st, fr, t, work):
        if t.startswith("goto -> "):
            self._goto(fr, t[8:])
            return None
        if t == "return":
            ret = st.mem.get(("L", fr.fid, "_0"), UNIT)
            st.frames.pop()
            if not st.frames:
                return PathResult(st, ret)
            caller = st.frames[-1]
            if fr.ret_place is not None:
                self._write(st, fr.ret_place, ret, caller)
            self._goto(caller, fr.ret_block)
            return None
        if t == "unreachable":
            self._oblige(st, "unreachable", "MIR unreachable reached", z3.BoolVal(True), fr)
            return "dead"
        if t.startswith("switchInt("):
            return self._switch(st, fr, t, work)
        if t.startswith("assert("):
            return self._assert(st, fr, t)
        if t.startswith("drop("):
            m = re.search(r"-> \[return: (bb\d+)", t)
            self._goto(fr, m.group(1))
            return None
        if t.startswith("resume") or t.startswith("abort") or t == "unwind resume":
            return "dead"
        # call
        m = _split_assign(t)
        if m:
            return self._call(st, fr, m[0], m[1], work)
        raise Unsupported("terminator: " + t)

    def _is_panic_block(self, fn, bb, depth=0):
        stmts, term = fn.blocks[bb]
        if term == "unreachable":
            return True
        if "-> [return:" in term or term.startswith("goto") or term.startswith("switchInt") or term == "return" \
                or term.startswith("assert(") or term.startswith("drop("):
            if term.startswith("goto -> ") and depth < 3 and not stmts:
                return self._is_panic_block(fn, term[8:], depth + 1)
            return False
        m = _split_assign(term)
        if m:
            callee = m[1]
            if any(callee.startswith(p) for p in PANIC_FNS) or "-> unwind" in callee:
                return True
        return False

    def _panic_msg(self, fn, bb):
        stmts, term = fn.blocks[bb]
        m = re.search(r'const "((?:[^"\\]|\\.)*)"', term) or re.search(r'const "((?:[^"\\]|\\.)*)"', " ".join(stmts))
        return (m.group(1) if m else term[:80])

    def _switch(self, st, fr, t, work):
        m = re.match(r"switchInt\((.*)\) -> \[(.*)\]$", t)
        disc = self._operand(st, fr, m.group(1))
        targets = [x.split(": ") for x in split_top(m.group(2))]
        booldisc = None
        if isinstance(disc, Int) and disc.ty == "bool":
            booldisc = disc.t
            dt, width = None, 1
        elif isinstance(disc, Int):
            dt, width = disc.t, INT_TYPES[disc.ty][0]
        else:
            raise Unsupported("switchInt on non-integer")
        conds = []
        vals = []
        for v, bb in targets:
            if booldisc is not None:
                if v == "otherwise":
                    if vals == [0]:
                        c = booldisc
                    elif vals == [1]:
                        c = z3.Not(booldisc)
                    elif sorted(vals) == [0, 1]:
                        c = z3.BoolVal(False)
                    else:
                        c = z3.BoolVal(True)
                else:
                    iv = int(v)
                    vals.append(iv)
                    c = z3.Not(booldisc) if iv == 0 else booldisc
            elif v == "otherwise":
                c = z3.And([dt != z3.BitVecVal(x, width) for x in vals]) if vals else z3.BoolVal(True)
            else:
                iv = int(v)
                vals.append(iv)
                c = dt == z3.BitVecVal(iv, width)
            conds.append((simp(c), bb))
        live = []
        for c, bb in conds:
            if z3.is_false(c):
                continue
            if self._is_panic_block(fr.fn, bb):
                self._oblige(st, "panic", self._panic_msg(fr.fn, bb), c, fr)
                continue
            live.append((c, bb))
        if not live:
            return "dead"
        if len(live) > 1:
            live = [(c, bb) for c, bb in live if z3.is_true(c) or self._feasible(st, c)]
            if not live:
                return "dead"
        for c, bb in live[1:]:
            s2 = st.clone()
            s2.pc.append(c)
            old = self.cur
            self.cur = s2
            try:
                self._goto(s2.frames[-1], bb)
            except _UnwindExceeded as e:
                self._oblige(s2, "unwind", "loop unwinding bound %d exceeded" % self.unwind, z3.BoolVal(True), e.fr)
                continue
            finally:
                self.cur = old
            work.append(s2)
            self.nforks += 1
        c, bb = live[0]
        if not z3.is_true(c):
            st.pc.append(c)
        self._goto(fr, bb)
        return None

    def _feasible(self, st, c):
        self.nfeas = getattr(self, "nfeas", 0) + 1
        s = z3.SolverFor("QF_BV")
        s.set("timeout", self.feas_timeout_ms)
        for d in st.defs:
            s.add(d)
        # branch conditions only: dropping the assert-derived facts can only make more paths
        # look feasible (never prunes a real one) and keeps 256-bit overflow terms out
        for p in st.pc:
            s.add(p)
        s.add(c)
        r = s.check()
        return r != z3.unsat

    def _assert(self, st, fr, t):
        m = re.match(r"assert\((.*)\) -> \[success: (bb\d+), unwind.*\]$", t) or \
            re.match(r"assert\((.*)\) -> (bb\d+)$", t)
        if not m:
            raise Unsupported("assert form: " + t)
        parts = split_top(m.group(1))
        cexpr = parts[0]
        neg = cexpr.startswith("!")
        c = self._as_bool(self._operand(st, fr, cexpr[1:] if neg else cexpr))
        ok = simp(z3.Not(c) if neg else c)
        msg = parts[1].strip('"') if len(parts) > 1 else "assert"
        if not z3.is_true(ok):
            self._oblige(st, "assert", msg, z3.Not(ok), fr)
            if z3.is_false(ok):
                return "dead"
            st.apc.append(ok)
        self._goto(fr, m.group(2))
        return None

    def _oblige(self, st, kind, msg, bad, fr):
        bad = simp(bad)
        if z3.is_false(bad):
            return
        self.obligations.append(Obligation(kind, msg, list(st.pc), bad, "%s:%s" % (fr.fn.name, fr.block), st.apc, st.defs))

    def _call(self, st, fr, lhs, rhs, work):
        m = re.match(r"(.*)\) -> \[return: (bb\d+), unwind.*\]$", rhs)
        diverges = False
        if not m:
            m2 = re.match(r"(.*)\) -> unwind.*$", rhs)
            if not m2:
                raise Unsupported("call form: " + rhs)
            diverges = True
            body = m2.group(1)
            retbb = None
        else:
            body, retbb = m.group(1), m.group(2)
        # split callee name and args: args are the last balanced parenthesis group
        depth, i = 0, len(body) - 1
        args_s = None
        # find matching '(' for the implicit closing ')'
        depth = 1
        while i >= 0:
            ch = body[i]
            if ch == ")":
                depth += 1
            elif ch == "(":
                depth -= 1
                if depth == 0:
                    break
            i -= 1
        callee = body[:i].strip()
        args_s = body[i + 1:]
        if diverges or any(callee.startswith(p) for p in PANIC_FNS):
            msg = re.search(r'const "((?:[^"\\]|\\.)*)"', rhs)
            self._oblige(st, "panic", msg.group(1) if msg else callee, z3.BoolVal(True), fr)
            return "dead"
        args = [self._operand(st, fr, a) for a in split_top(args_s)] if args_s.strip() else []
        dest = self._place(st, fr, lhs)
        base = strip_generics(callee)
        for pat, fnc in self.intrinsics.items():
            if re.fullmatch(pat, base) or re.fullmatch(pat, callee):
                v = fnc(self, st, fr, callee, args)
                self._write(st, dest, v, fr)
                self._goto(fr, retbb)
                return None
        fn = self.p.lookup(callee)
        cr = getattr(fr.fn, "crate", None)
        if fn is None and cr:
            fn = self.p.lookup(cr + "::" + callee)
        if fn is None or fn.kind != "fn":
            raise Unsupported("call to unmodelled function: " + callee)
        if any(re.fullmatch(r"[A-Z]\w{0,3}|Self", ty) for _, ty in fn.args) or re.search(r"::<[A-Z]\w*>", callee) and "mono::" not in fn.name and fn.name.split("::")[-1] + "::<" in callee and False:
            raise Unsupported("call to generic function body: " + callee)
        self._push(st, fn, args, dest, retbb)
        return None

    # ---- places
    def _parse_place(self, s):
        """-> (local, [proj...]) ; proj: ('deref',) ('f',i) ('idx',local) ('cidx',i,n,from_end) ('down',name)"""
        key = ("P", s)
        if key in self._parse_cache:
            return self._parse_cache[key]
        res = _parse_place(s)
        self._parse_cache[key] = res
        return res

    def _place(self, st, fr, s):
        local, projs = self._parse_place(s)
        place = (("L", fr.fid, local), ())
        slice_ctx = None   # (arrplace, off, len) after deref of a fat pointer
        for pr in projs:
            k = pr[0]
            if k == "deref":
                v = self._read(st, place, fr) if slice_ctx is None else None
                if isinstance(v, Ref):
                    place = v.place
                elif isinstance(v, Slice):
                    slice_ctx = (v.arr, v.off, v.len)
                    place = None
                else:
                    raise Unsupported("deref of non-pointer %r in %s" % (v, s))
            elif k == "f":
                if slice_ctx is not None:
                    raise Unsupported("field of slice")
                place = (place[0], place[1] + (("f", pr[1]),))
            elif k == "down":
                continue
            elif k in ("idx", "cidx"):
                if k == "idx":
                    iv = st.mem[("L", fr.fid, pr[1])]
                    it = iv.t
                else:
                    it = z3.BitVecVal(pr[1], 64)
                if slice_ctx is not None:
                    arr, off, ln = slice_ctx
                    self._oblige(st, "bounds", "slice element access out of bounds", z3.UGE(it, _t64(ln)), fr)
                    place = (arr[0], arr[1] + (("i", simp(_t64(off) + it)),))
                    slice_ctx = None
                else:
                    cur = self._read(st, place, fr)
                    if not isinstance(cur, Arr):
                        raise Unsupported("index into non-array")
                    self._oblige(st, "bounds", "array element access out of bounds",
                                 z3.UGE(it, z3.BitVecVal(len(cur.elems), 64)), fr)
                    place = (place[0], place[1] + (("i", simp(it)),))
            else:
                raise Unsupported("projection " + str(pr))
        if slice_ctx is not None:
            return ("SLICE",) + slice_ctx
        return place

    def _read(self, st, place, fr=None):
        if place[0] == "SLICE":
            return Slice(place[1], place[2], place[3])
        root, path = place
        if root not in st.mem:
            raise Unsupported("read of uninitialised %s" % (root,))
        v = st.mem[root]
        for pr in path:
            if pr[0] == "f":
                if not isinstance(v, Agg):
                    raise Unsupported("field of non-aggregate %r" % (v,))
                v = v.fields[pr[1]]
            else:
                if not isinstance(v, Arr):
                    raise Unsupported("index of non-array")
                i = pr[1]
                ci = conc(i) if not isinstance(i, int) else i
                if ci is not None:
                    if ci >= len(v.elems):
                        # out-of-bounds concrete access: obligation already recorded; value is arbitrary
                        return self._fresh_like(v.elems[0])
                    v = v.elems[ci]
                else:
                    v = self._select(v, i)
        return v

    def _fresh_like(self, v):
        if isinstance(v, Int):
            self.fresh += 1
            if v.ty == "bool":
                return Int("bool", z3.Bool("oob%d" % self.fresh))
            return Int(v.ty, z3.BitVec("oob%d" % self.fresh, INT_TYPES[v.ty][0]))
        raise Unsupported("out-of-bounds read of aggregate")

    def _select(self, arr, idx):
        """Symbolic-index read: balanced ite tree over the elements (ints or tuples of ints)."""
        e0 = arr.elems[0]
        if isinstance(e0, Int) and _is_digit_pair_table(arr):
            # DIGIT_TO_BASE10_SQUARED-shaped table (checked entry by entry on the dumped bytes):
            # T[2k] = '0' + k/10, T[2k+1] = '0' + k%10. The read is encoded arithmetically with
            # fresh hi, lo: k = 10*hi + lo. These axioms are unconditional: the in-bounds
            # obligation of this very access (and the no-overflow asserts of the index
            # computation) were recorded before, under earlier axioms only ("assume after assert").
            m = _match_pair_index(idx)
            if m is not None:
                x, par = m      # idx == 2*x + par, syntactically
                key = ("pair", x.get_id())
                ent = self.cur.tables.get(key)
                if ent is None:
                    self.fresh += 1
                    f = self.fresh
                    hi, lo = z3.BitVec("th%d" % f, 64), z3.BitVec("tl%d" % f, 64)
                    self.cur.defs.append(z3.And(x == 10 * hi + lo, z3.ULT(hi, 10), z3.ULT(lo, 10),
                                                z3.ULT(x, 100)))
                    ent = (x, hi, lo)
                    self.cur.tables = dict(self.cur.tables)
                    self.cur.tables[key] = ent
                d = ent[1] if par == 0 else ent[2]
                return Int(e0.ty, z3.Extract(7, 0, d) + z3.BitVecVal(48, 8))
            self.fresh += 1
            f = self.fresh
            k, par = z3.BitVec("tk%d" % f, 64), z3.BitVec("tp%d" % f, 64)
            hi, lo = z3.BitVec("th%d" % f, 64), z3.BitVec("tl%d" % f, 64)
            self.cur.defs.append(z3.And(
                idx == 2 * k + par, z3.ULT(par, 2), z3.ULT(k, 100),
                k == 10 * hi + lo, z3.ULT(hi, 10), z3.ULT(lo, 10)))
            d = z3.If(par == 0, hi, lo)
            return Int(e0.ty, z3.Extract(7, 0, d) + z3.BitVecVal(48, 8))
        if isinstance(e0, Int):
            def build(lo, hi):
                if hi - lo == 1:
                    return arr.elems[lo].t
                mid = (lo + hi) // 2
                return z3.If(z3.ULT(idx, z3.BitVecVal(mid, 64)), build(lo, mid), build(mid, hi))
            return Int(e0.ty, build(0, len(arr.elems)))
        if isinstance(e0, Agg):
            fs = []
            for k in range(len(e0.fields)):
                sub = Arr([e.fields[k] for e in arr.elems])
                fs.append(self._select(sub, idx))
            return Agg(fs, e0.variant, e0.ty)
        raise Unsupported("symbolic index into array of " + type(e0).__name__)

    def _write(self, st, place, val, fr=None):
        if place[0] == "SLICE":
            raise Unsupported("assignment to unsized place")
        root, path = place
        if not path:
            st.mem[root] = val
            return
        st.mem[root] = self._update(st.mem.get(root), path, val)

    def _update(self, cur, path, val):
        if not path:
            return val
        pr = path[0]
        if pr[0] == "f":
            if cur is None:
                raise Unsupported("field write into uninitialised aggregate")
            fs = list(cur.fields)
            fs[pr[1]] = self._update(fs[pr[1]], path[1:], val)
            return Agg(fs, cur.variant, cur.ty)
        i = pr[1]
        ci = conc(i) if not isinstance(i, int) else i
        els = list(cur.elems)
        if ci is not None:
            if ci < len(els):
                els[ci] = self._update(els[ci], path[1:], val)
            return Arr(els)
        if len(path) > 1 or not isinstance(val, Int):
            raise Unsupported("symbolic-index write of aggregate")
        for k in range(len(els)):
            els[k] = Int(els[k].ty, z3.If(i == z3.BitVecVal(k, 64), val.t, els[k].t))
        return Arr(els)

    # ---- operands / rvalues
    def _as_bool(self, v):
        if isinstance(v, Int) and v.ty == "bool":
            return v.t
        raise Unsupported("expected bool")

    def _operand(self, st, fr, s):
        s = s.strip()
        if s.startswith("copy ") or s.startswith("move "):
            return self._read(st, self._place(st, fr, s[5:]), fr)
        if s.startswith("const "):
            return self._const(st, s[6:])
        raise Unsupported("operand: " + s)

    def _const(self, st, c):
        c = c.strip()
        m = re.fullmatch(r"(-?\d+)_([iu](?:8|16|32|64|128|size))", c)
        if m:
            return bv(m.group(2), int(m.group(1)))
        if c == "true":
            return mkbool(True)
        if c == "false":
            return mkbool(False)
        m = re.fullmatch(r"([iu](?:8|16|32|64|128|size))::(MIN|MAX)", c)
        if m:
            bits, signed = INT_TYPES[m.group(1)]
            if m.group(2) == "MAX":
                v = (1 << (bits - 1)) - 1 if signed else (1 << bits) - 1
            else:
                v = -(1 << (bits - 1)) if signed else 0
            return bv(m.group(1), v)
        m = re.fullmatch(r"(?:core|std)::num::<impl ([iu](?:8|16|32|64|128|size))>::(MIN|MAX|BITS)", c)
        if m:
            if m.group(2) == "BITS":
                return bv("u32", INT_TYPES[m.group(1)][0])
            return self._const(st, "%s::%s" % (m.group(1), m.group(2)))
        if c.startswith('"') or c.startswith('b"'):
            return Opaque("str " + c[:40])
        m = re.fullmatch(r"'(.)'", c)
        if m:
            return bv("char", ord(m.group(1)))
        m = re.fullmatch(r"\{(alloc\d+): (.*)\}", c)
        if m:
            return self._alloc_ref(st, m.group(1), m.group(2))
        m = re.fullmatch(r"(.+?) \{\{ (.*) \}\}", c)
        if m:
            fields = []
            for f in split_top(m.group(2)):
                nm, v = f.split(": ", 1)
                fields.append(self._const(st, v))
            return Agg(fields, None, m.group(1))
        m = re.fullmatch(r"(?:std|core)::option::Option::<.*>::None", c)
        if m:
            return Agg([], "None", "Option")
        m = re.fullmatch(r"(?:std|core)::option::Option::<.*?>::Some\((.*)\)", c)
        if m:
            return Agg([self._const(st, m.group(1))], "Some", "Option")
        m = re.fullmatch(r"([\w:]+)::(\w+)::(\w+)", c)
        if m and m.group(2) in src_enums() and m.group(3) in src_enums()[m.group(2)]:
            return Agg([], m.group(3), m.group(1) + "::" + m.group(2))
        if c == "()":
            return UNIT
        m = re.fullmatch(r"\((.*)\)", c)
        if m:
            return Agg([self._const(st, x) for x in split_top(m.group(1))])
        # named constant / promoted
        item = self.p.lookup(c)
        cr = getattr(st.frames[-1].fn, "crate", None) if st.frames else None
        if item is None and cr:
            item = self.p.lookup(cr + "::" + c)
        if item is not None and item.kind in ("const", "static", "promoted"):
            return self._eval_const_item(st, item)
        m = re.fullmatch(r"<(\w+) as ([\w:]+)>::(\w+)::promoted\[(\d+)\]", c)
        if m and item is None:
            # promoted constant of a trait-impl method: the defining crate prints the impl block
            # anonymously, so pick the candidate whose type is the type of the destination local
            crate_ = m.group(2).split("::")[0]
            suf = "::%s::promoted[%s]" % (m.group(3), m.group(4))
            want = getattr(self, "_want_ty", None)
            cands = [f for k, f in self.p.fns.items() if k.split("::")[0] == crate_ and k.endswith(suf) and "<impl at " in k]
            if want is not None:
                norm = lambda t: re.sub(r"\s+", "", t).replace("std::", "core::")
                c2 = [f for f in cands if norm(f.ret_ty) == norm(want)]
                if c2:
                    cands = c2
            if len(cands) > 1:
                cands = [f for f in cands if self.p.impl_self_type(f) == m.group(1)]
            if len(cands) == 1:
                return self._eval_const_item(st, cands[0])
            raise Unsupported("ambiguous promoted constant %s (%d candidates for type %s)" % (c, len(cands), want))
        if re.search(r"PhantomData|::\{closure", c) or re.fullmatch(r"[\w:<>, ]+", c) and item is None and c[0].isupper():
            return Opaque("zst " + c)
        raise Unsupported("constant: " + c)

    def _eval_const_item(self, st, item):
        key = item.name
        if key in self.p._const_cache:
            v, mem = self.p._const_cache[key]
            st.mem.update(mem)
            return v
        if item.const_expr is not None:
            v = self._const(st, item.const_expr[6:])
            self.p._const_cache[key] = (v, {})
            return v
        sub = Executor(self.p, max_steps=2000000)
        sub.intrinsics = self.intrinsics
        res = sub.run_item(item)
        if sub.obligations:
            raise Unsupported("const evaluation of %s has obligations" % key)
        v, mem = res
        # frame-local roots of the const body become globals
        ren = {}
        for root, val in mem.items():
            if root[0] == "L":
                ren[root] = ("G", key, root[2])
        def fix(x):
            if isinstance(x, Ref):
                r, p = x.place
                return Ref((ren.get(r, r), p))
            if isinstance(x, Slice):
                r, p = x.arr
                return Slice((ren.get(r, r), p), x.off, x.len)
            if isinstance(x, Agg):
                return Agg([fix(f) for f in x.fields], x.variant, x.ty)
            if isinstance(x, Arr):
                return Arr([fix(e) for e in x.elems])
            return x
        gmem = {ren.get(r, r): fix(val) for r, val in mem.items()}
        v = fix(v)
        self.p._const_cache[key] = (v, gmem)
        st.mem.update(gmem)
        return v

    def run_item(self, item):
        st = State()
        self._push(st, item, [], None, None)
        work = [st]
        res = self._run_path(st, work)
        if res is None or work[1:]:
            raise Unsupported("const body forks/diverges: " + item.name)
        return res.ret, res.mem

    def _alloc_ref(self, st, name, ty):
        a = self.p.allocs.get(name)
        if a is None:
            raise Unsupported("missing " + name)
        ty = ty.strip()
        if not ty.startswith("&"):
            raise Unsupported("alloc const of type " + ty)
        inner = ty[1:].strip()
        root = ("G", name)
        if root not in st.mem:
            v, used = decode_bytes(a.data, 0, inner)
            st.mem[root] = v
        return Ref((root, ()))

    def _rvalue(self, st, fr, r):
        r = r.strip()
        if r.startswith("copy ") or r.startswith("move ") or r.startswith("const "):
            m = re.match(r"(.*) as (.+?) \((\w+)(?:\((.*)\))?\)$", r)
            if m and not r.startswith("const {"):
                return self._cast(st, fr, self._operand(st, fr, m.group(1)), m.group(2), m.group(3), m.group(4))
            m = re.match(r"(const \{.*\}) as (.+?) \((\w+)(?:\((.*)\))?\)$", r)
            if m:
                return self._cast(st, fr, self._operand(st, fr, m.group(1)), m.group(2), m.group(3), m.group(4))
            return self._operand(st, fr, r)
        m = re.match(r"(\w+)\((.*)\)$", r)
        if m and m.group(1) in BINOPS:
            a, b = [self._operand(st, fr, x) for x in split_top(m.group(2))]
            return self._binop(m.group(1), a, b)
        if m and m.group(1) in ("Neg", "Not", "PtrMetadata", "Len"):
            a = self._operand(st, fr, m.group(2)) if not m.group(1) == "Len" else self._read(st, self._place(st, fr, m.group(2)), fr)
            return self._unop(m.group(1), a)
        if r.startswith("discriminant("):
            v = self._read(st, self._place(st, fr, r[13:-1]), fr)
            if isinstance(v, Agg) and v.variant is not None:
                return bv("isize", enum_discr(v.ty, v.variant))
            raise Unsupported("discriminant of %r" % (v,))
        if r.startswith("&raw const ") or r.startswith("&raw mut "):
            body = re.sub(r"^\(fake\w*\)\s*", "", r.split(" ", 2)[2].strip())
            pl = self._place(st, fr, body)
            return self._mkref(pl)
        if r.startswith("&mut "):
            return self._mkref(self._place(st, fr, r[5:]))
        if r.startswith("&"):
            body = re.sub(r"^\(fake\w*\)\s*|^fake \w+\s+", "", r[1:].strip())
            return self._mkref(self._place(st, fr, body))
        m = re.match(r"\*(?:mut|const) \[.*\] from \((.*)\)$", r)
        if m:
            p, ln = [self._operand(st, fr, x) for x in split_top(m.group(1))]
            if isinstance(p, Ref) and p.place[1] and p.place[1][-1][0] == "i":
                return Slice((p.place[0], p.place[1][:-1]), p.place[1][-1][1], ln.t)
            raise Unsupported("slice from raw parts of %r" % (p,))
        if r.startswith("[") and r.endswith("]"):
            inner = r[1:-1]
            parts = split_top(inner, ";")
            if len(parts) == 2:
                v = self._operand(st, fr, parts[0])
                n = int(re.match(r"(?:const )?(\d+)", parts[1].strip()).group(1))
                return Arr([v] * n)
            return Arr([self._operand(st, fr, x) for x in split_top(inner)])
        if r.startswith("(") and r.endswith(")"):
            return Agg([self._operand(st, fr, x) for x in split_top(r[1:-1])])
        m = re.match(r"([\w:<>&' ,\[\]]+?) \{ (.*) \}$", r)
        if m:
            fields = []
            for f in split_top(m.group(2)):
                nm, v = f.split(": ", 1)
                fields.append(self._operand(st, fr, v))
            return Agg(fields, None, m.group(1))
        m = re.match(r"([\w:<>&' ,\[\]]+?)::(\w+)\((.*)\)$", r)
        if m and (m.group(2) in ENUM_DISCR or m.group(1).split("<")[0].split("::")[-1] in src_enums()):
            return Agg([self._operand(st, fr, x) for x in split_top(m.group(3))], m.group(2), m.group(1))
        m = re.match(r"([\w:<>&' ,\[\]]+?)::(\w+)$", r)
        if m and (m.group(2) in ENUM_DISCR or m.group(1).split("<")[0].split("::")[-1] in src_enums()):
            return Agg([], m.group(2), m.group(1))
        raise Unsupported("rvalue: " + r)

    def _mkref(self, pl):
        if pl[0] == "SLICE":
            return Slice(pl[1], pl[2], pl[3])
        return Ref(pl)

    def _cast(self, st, fr, v, ty, kind, extra):
        ty = ty.strip()
        if kind == "IntToInt":
            if ty not in INT_TYPES:
                raise Unsupported("cast to " + ty)
            bits, _ = INT_TYPES[ty]
            if v.ty == "bool":
                return Int(ty, simp(z3.If(v.t, z3.BitVecVal(1, bits), z3.BitVecVal(0, bits))))
            sb, ss = INT_TYPES[v.ty]
            if bits == sb:
                t = v.t
            elif bits < sb:
                t = z3.Extract(bits - 1, 0, v.t)
            else:
                t = z3.SignExt(bits - sb, v.t) if ss else z3.ZeroExt(bits - sb, v.t)
            return Int(ty, simp(t))
        if kind == "PointerCoercion" and extra and extra.startswith("Unsize"):
            if isinstance(v, Ref):
                cur = self._read(st, v.place)
                if isinstance(cur, Arr):
                    return Slice(v.place, 0, z3.BitVecVal(len(cur.elems), 64))
            if isinstance(v, Slice):
                return v
            raise Unsupported("unsize of %r" % (v,))
        if kind in ("PtrToPtr", "PointerCoercion"):
            if isinstance(v, Slice) and re.match(r"\*(mut|const) u8$", ty):
                return Ref((v.arr[0], v.arr[1] + (("i", simp(_t64(v.off))),)))
            if isinstance(v, (Ref, Slice)):
                return v
        if kind == "Transmute":
            if isinstance(v, Int) and ty in ("f32", "f64") and INT_TYPES[v.ty][0] == int(ty[1:]):
                return Int("u" + ty[1:], v.t)     # floats are carried as their bit patterns
            if isinstance(v, (Ref, Slice, Opaque)):
                return Opaque("transmuted pointer")
            if isinstance(v, Int) and ty in INT_TYPES and INT_TYPES[ty][0] == INT_TYPES[v.ty][0]:
                return Int(ty, v.t)
        raise Unsupported("cast %s to %s (%s)" % (type(v).__name__, ty, kind))

    def _unop(self, op, a):
        if op == "Neg":
            return Int(a.ty, simp(-a.t))
        if op == "Not":
            if a.ty == "bool":
                return Int("bool", simp(z3.Not(a.t)))
            return Int(a.ty, simp(~a.t))
        if op == "PtrMetadata":
            if isinstance(a, Slice):
                return Int("usize", _t64(a.len))
            if isinstance(a, Opaque):
                return Int("usize", z3.BitVecVal(0, 64))
            raise Unsupported("PtrMetadata of thin pointer")
        if op == "Len":
            if isinstance(a, Arr):
                return bv("usize", len(a.elems))
            if isinstance(a, Slice):
                return Int("usize", _t64(a.len))
        raise Unsupported("unop " + op)

    def _binop(self, op, a, b):
        if not isinstance(a, Int) or not isinstance(b, Int):
            raise Unsupported("binop %s on non-integers" % op)
        if a.ty == "bool":
            f = {"BitAnd": z3.And, "BitOr": z3.Or, "BitXor": z3.Xor, "Eq": lambda x, y: x == y,
                 "Ne": lambda x, y: x != y}.get(op)
            if not f:
                raise Unsupported("bool binop " + op)
            return Int("bool", simp(f(a.t, b.t)))
        bits, signed = INT_TYPES[a.ty]
        x, y = a.t, b.t
        if op in ("Shl", "Shr", "ShlUnchecked", "ShrUnchecked"):
            yb = INT_TYPES[b.ty][0]
            if yb < bits:
                y = z3.ZeroExt(bits - yb, y)
            elif yb > bits:
                y = z3.Extract(bits - 1, 0, y)
            # rustc masks the amount for the unchecked MIR op (overflow asserted separately)
            y = y & z3.BitVecVal(bits - 1, bits)
            if op.startswith("Shl"):
                return Int(a.ty, simp(x << y))
            return Int(a.ty, simp((x >> y) if signed else z3.LShR(x, y)))
        if INT_TYPES[b.ty][0] != bits:
            raise Unsupported("binop width mismatch %s %s %s" % (op, a.ty, b.ty))
        if op in ("Add", "AddUnchecked"):
            return Int(a.ty, simp(x + y))
        if op in ("Sub", "SubUnchecked"):
            return Int(a.ty, simp(x - y))
        if op in ("Mul", "MulUnchecked"):
            return Int(a.ty, simp(x * y))
        if op in ("AddWithOverflow", "SubWithOverflow", "MulWithOverflow"):
            if op[0] == "M":
                w = 2 * bits
            else:
                w = bits + 1
            ext = (lambda t: z3.SignExt(w - bits, t)) if signed else (lambda t: z3.ZeroExt(w - bits, t))
            wx, wy = ext(x), ext(y)
            wide = wx + wy if op[0] == "A" else (wx - wy if op[0] == "S" else wx * wy)
            # the result is the plain wrapped operation at the type's own width (keeps the value
            # terms small); only the overflow flag looks at the widened computation
            res = x + y if op[0] == "A" else (x - y if op[0] == "S" else x * y)
            ov = wide != ext(res)
            return Agg([Int(a.ty, simp(res)), Int("bool", simp(ov))])
        if op in ("Div", "Rem"):
            return self._divrem(op, a, b)
        if op == "BitAnd":
            return Int(a.ty, simp(x & y))
        if op == "BitOr":
            return Int(a.ty, simp(x | y))
        if op == "BitXor":
            return Int(a.ty, simp(x ^ y))
        cmpf = {
            "Eq": lambda: x == y, "Ne": lambda: x != y,
            "Lt": lambda: (x < y) if signed else z3.ULT(x, y),
            "Le": lambda: (x <= y) if signed else z3.ULE(x, y),
            "Gt": lambda: (x > y) if signed else z3.UGT(x, y),
            "Ge": lambda: (x >= y) if signed else z3.UGE(x, y),
        }.get(op)
        if cmpf:
            return Int("bool", simp(cmpf()))
        if op == "Cmp":
            raise Unsupported("Cmp")
        raise Unsupported("binop " + op)

    def _divrem(self, op, a, b):
        bits, signed = INT_TYPES[a.ty]
        x, y = a.t, b.t
        if is_conc(x) and is_conc(y):
            if signed:
                return Int(a.ty, simp(z3.SRem(x, y) if op == "Rem" else x / y))
            return Int(a.ty, simp(z3.URem(x, y) if op == "Rem" else z3.UDiv(x, y)))
        if signed:
            raise Unsupported("signed symbolic division")
        # unsigned: fresh quotient/remainder + division lemma (unique solution, so sound);
        # Div and Rem of the same operands share one pair
        for (dx, dy, dq, dr) in self.cur.divs:
            if dx.eq(x) and dy.eq(y):
                return Int(a.ty, dq if op == "Div" else dr)
        self.fresh += 1
        q = z3.BitVec("divq%d" % self.fresh, bits)
        r = z3.BitVec("divr%d" % self.fresh, bits)
        w = 2 * bits
        ze = lambda t: z3.ZeroExt(bits, t)
        self.cur.defs.append(z3.Implies(y != 0, z3.And(ze(x) == ze(q) * ze(y) + ze(r), z3.ULT(r, y))))
        self.cur.divs.append((x, y, q, r))
        return Int(a.ty, q if op == "Div" else r)


def _match_times2(t):
    """If t is syntactically 2*x (possibly zero-extended), return x widened to 64 bits."""
    if not z3.is_app(t):
        return None
    k = t.decl().kind()
    if k == z3.Z3_OP_ZERO_EXT:
        inner = _match_times2(t.arg(0))
        if inner is None:
            return None
        return inner
    if k == z3.Z3_OP_BMUL and t.num_args() == 2:
        for i in (0, 1):
            c = t.arg(i)
            if z3.is_bv_value(c) and c.as_long() == 2:
                x = t.arg(1 - i)
                return z3.ZeroExt(64 - x.size(), x) if x.size() < 64 else x
    return None


def _match_pair_index(idx):
    """idx == 2*x or 2*x + 1 syntactically -> (x as 64-bit term, parity)."""
    x = _match_times2(idx)
    if x is not None:
        return x, 0
    if z3.is_app(idx) and idx.decl().kind() == z3.Z3_OP_BADD and idx.num_args() == 2:
        for i in (0, 1):
            c = idx.arg(i)
            if z3.is_bv_value(c) and c.as_long() == 1:
                x = _match_times2(idx.arg(1 - i))
                if x is not None:
                    return x, 1
    return None


def _is_digit_pair_table(arr):
    if len(arr.elems) != 200:
        return False
    for k in range(100):
        a, b = conc(arr.elems[2 * k].t), conc(arr.elems[2 * k + 1].t)
        if a != 48 + k // 10 or b != 48 + k % 10:
            return False
    return True


def _t64(t):
    if isinstance(t, int):
        return z3.BitVecVal(t, 64)
    return t


BINOPS = {"Add", "Sub", "Mul", "Div", "Rem", "BitAnd", "BitOr", "BitXor", "Shl", "Shr", "Eq", "Ne", "Lt", "Le",
          "Gt", "Ge", "AddWithOverflow", "SubWithOverflow", "MulWithOverflow", "AddUnchecked", "SubUnchecked",
          "MulUnchecked", "ShlUnchecked", "ShrUnchecked", "Cmp", "Offset"}

ENUM_DISCR = {"None": 0, "Some": 1, "Ok": 0, "Err": 1, "Included": 0, "Excluded": 1, "Unbounded": 2,
              "Less": -1, "Equal": 0, "Greater": 1}


_SRC_ENUMS = None


def src_enums():
    """Variant order of the (field-less-discriminant) enums defined in /repo's crates, read from
    the current sources: MIR prints variants by name but switches on their indices."""
    global _SRC_ENUMS
    if _SRC_ENUMS is None:
        import glob
        import os
        repo = os.environ.get("VERIF_REPO", "/repo")
        out = {}
        for path in glob.glob(os.path.join(repo, "lexical*", "src", "*.rs")):
            try:
                txt = open(path).read()
            except OSError:
                continue
            for m in re.finditer(r"\benum\s+(\w+)\s*\{(.*?)\n\}", txt, re.S):
                body = re.sub(r"//[^\n]*", "", m.group(2))
                body = re.sub(r"#\[[^\]]*\]", "", body)
                names = []
                depth = 0
                cur = ""
                for ch in body:
                    if ch in "({[":
                        depth += 1
                    elif ch in ")}]":
                        depth -= 1
                    elif ch == "," and depth == 0:
                        names.append(cur)
                        cur = ""
                        continue
                    if depth == 0 or ch in "({[":
                        cur += ch
                names.append(cur)
                vs = []
                ok = True
                for n in names:
                    n = n.strip()
                    if not n:
                        continue
                    mm = re.match(r"(\w+)", n)
                    if "=" in n:
                        ok = False
                    vs.append(mm.group(1))
                if ok and vs:
                    out.setdefault(m.group(1), vs)
        _SRC_ENUMS = out
    return _SRC_ENUMS


def enum_discr(ty, variant):
    if variant in ENUM_DISCR and (ty is None or ty.split("::")[0] in ("core", "std", "Option", "Result", "Bound") or ty.split("<")[0].split("::")[-1] in ("Option", "Result", "Bound", "Ordering")):
        return ENUM_DISCR[variant]
    if ty:
        name = ty.split("<")[0].split("::")[-1]
        vs = src_enums().get(name)
        if vs and variant in vs:
            return vs.index(variant)
    if variant in ENUM_DISCR:
        return ENUM_DISCR[variant]
    raise Unsupported("discriminant of %s::%s" % (ty, variant))


def _split_assign(s):
    """Split `PLACE = RVALUE` at the first top-level ` = `."""
    depth = 0
    for i, c in enumerate(s):
        if c in "([{":
            depth += 1
        elif c in ")]}":
            depth -= 1
        elif c == "=" and depth == 0 and s[i - 1:i + 2] == " = ":
            return s[:i - 1].strip(), s[i + 2:].strip()
        elif c == '"':
            break
    return None


def _parse_place(s):
    s = s.strip()
    pos = 0

    def parse_inner(s):
        # returns (local, projs) for expression possibly wrapped in parens
        s = s.strip()
        projs = []
        # peel trailing index projections
        while s.endswith("]") and not s.startswith("["):
            d, i = 0, len(s) - 1
            while i >= 0:
                if s[i] == "]":
                    d += 1
                elif s[i] == "[":
                    d -= 1
                    if d == 0:
                        break
                i -= 1
            idx = s[i + 1:-1]
            m = re.fullmatch(r"(\d+) of (\d+)", idx)
            if m:
                projs.insert(0, ("cidx", int(m.group(1)), int(m.group(2))))
            elif re.fullmatch(r"_\d+", idx):
                projs.insert(0, ("idx", idx))
            elif re.fullmatch(r"-(\d+) of (\d+)", idx):
                raise Unsupported("from-end constant index")
            else:
                raise Unsupported("index projection " + idx)
            s = s[:i].strip()
        if re.fullmatch(r"_\d+", s):
            return s, projs
        if s.startswith("(") and s.endswith(")"):
            inner = s[1:-1].strip()
            if inner.startswith("*"):
                l, p = parse_inner(inner[1:])
                return l, p + [("deref",)] + projs
            # (P as Variant)
            m = re.fullmatch(r"(.*) as (\w+)", inner)
            if m and _balanced(m.group(1)):
                l, p = parse_inner(m.group(1))
                return l, p + [("down", m.group(2))] + projs
            # (P.N: ty)
            # find the last top-level '.' followed by digits and ':'
            d = 0
            cut = None
            for i, c in enumerate(inner):
                if c in "([{<":
                    d += 1
                elif c in ")]}" or (c == ">" and inner[i - 1] not in "-="):
                    d -= 1
                elif c == "." and d == 0:
                    m2 = re.match(r"\.(\d+): ", inner[i:])
                    if m2:
                        cut = (i, int(m2.group(1)))
                        break
            if cut:
                l, p = parse_inner(inner[:cut[0]])
                return l, p + [("f", cut[1])] + projs
        raise Unsupported("place: " + s)

    return parse_inner(s)


def _balanced(s):
    d = 0
    for c in s:
        if c in "([{":
            d += 1
        elif c in ")]}":
            d -= 1
            if d < 0:
                return False
    return d == 0


# ---------------------------------------------------------------- alloc decoding
def type_size(ty):
    ty = ty.strip()
    if ty in INT_TYPES:
        return INT_TYPES[ty][0] // 8
    if ty == "bool":
        return 1
    m = re.fullmatch(r"\[(.+); (\d+)\]", ty)
    if m:
        return type_size(m.group(1)) * int(m.group(2))
    m = re.fullmatch(r"\((.*)\)", ty)
    if m:
        parts = split_top(m.group(1))
        sizes = [type_size(p) for p in parts]
        if len(set(sizes)) != 1:
            raise Unsupported("layout of heterogeneous tuple " + ty)
        return sum(sizes)
    raise Unsupported("size of type " + ty)


def decode_bytes(data, off, ty):
    ty = ty.strip()
    if ty in INT_TYPES:
        n = INT_TYPES[ty][0] // 8
        return bv(ty, int.from_bytes(data[off:off + n], "little")), n
    if ty == "bool":
        return mkbool(data[off] != 0), 1
    m = re.fullmatch(r"\[(.+); (\d+)\]", ty)
    if m:
        es = type_size(m.group(1))
        els = []
        for k in range(int(m.group(2))):
            v, _ = decode_bytes(data, off + k * es, m.group(1))
            els.append(v)
        return Arr(els), es * int(m.group(2))
    m = re.fullmatch(r"\((.*)\)", ty)
    if m:
        parts = split_top(m.group(1))
        type_size(ty)
        fs, o = [], off
        for p in parts:
            v, n = decode_bytes(data, o, p)
            fs.append(v)
            o += n
        return Agg(fs), o - off
    raise Unsupported("decode of type " + ty)


# ---------------------------------------------------------------- intrinsics
def _i_ctlz(ex, st, fr, callee, args):
    a = args[0]
    bits = INT_TYPES[a.ty][0]
    known = ex.clz_known.get(a.t.get_id())
    if known is not None and known[0].eq(a.t):
        return bv("u32", known[1])
    if is_conc(a.t):
        v = a.t.as_long()
        return bv("u32", bits - v.bit_length())
    # ctlz(x) = number of leading zeros; nested ite over bit positions
    res = z3.BitVecVal(bits, 32)
    for i in range(bits):
        res = z3.If(z3.Extract(i, i, a.t) == 1, z3.BitVecVal(bits - 1 - i, 32), res)
    return Int("u32", res)


def _i_cttz(ex, st, fr, callee, args):
    a = args[0]
    bits = INT_TYPES[a.ty][0]
    res = z3.BitVecVal(bits, 32)
    for i in reversed(range(bits)):
        res = z3.If(z3.Extract(i, i, a.t) == 1, z3.BitVecVal(i, 32), res)
    return Int("u32", simp(res))


def _i_get_unchecked(ex, st, fr, callee, args):
    s, i = args
    if not isinstance(s, Slice):
        raise Unsupported("get_unchecked on non-slice")
    ex._oblige(st, "bounds", "get_unchecked index out of bounds", z3.UGE(i.t, _t64(s.len)), fr)
    return Ref((s.arr[0], s.arr[1] + (("i", simp(_t64(s.off) + i.t)),)))


def _i_cold(ex, st, fr, callee, args):
    return UNIT


def _i_range_incl_new(ex, st, fr, callee, args):
    return Agg([args[0], args[1], mkbool(False)], None, "RangeInclusive")


def _i_rotr(ex, st, fr, callee, args):
    a, n = args
    return Int(a.ty, simp(z3.RotateRight(a.t, _fit(n.t, INT_TYPES[a.ty][0]))))


def _i_rotl(ex, st, fr, callee, args):
    a, n = args
    return Int(a.ty, simp(z3.RotateLeft(a.t, _fit(n.t, INT_TYPES[a.ty][0]))))


def _fit(t, bits):
    w = t.size()
    if w < bits:
        return z3.ZeroExt(bits - w, t)
    if w > bits:
        return z3.Extract(bits - 1, 0, t)
    return t


def _wrapping(op):
    def f(ex, st, fr, callee, args):
        return ex._binop(op, args[0], args[1])
    return f


def _i_ptr_add(ex, st, fr, callee, args):
    p, n = args
    if isinstance(p, Ref) and p.place[1] and p.place[1][-1][0] == "i":
        base = p.place[1][-1][1]
        return Ref((p.place[0], p.place[1][:-1] + (("i", simp(_t64(base) + n.t)),)))
    raise Unsupported("pointer add on %r" % (p,))


def _i_range_next(ex, st, fr, callee, args):
    r = args[0]
    if not isinstance(r, Ref):
        raise Unsupported("Range::next on non-reference")
    rng = ex._read(st, r.place)
    a, b = rng.fields[0], rng.fields[1]
    if not (is_conc(a.t) and is_conc(b.t)):
        raise Unsupported("Range::next with symbolic bounds")
    bits, signed = INT_TYPES[a.ty]
    av, bv_ = a.t.as_signed_long() if signed else a.t.as_long(), b.t.as_signed_long() if signed else b.t.as_long()
    if av < bv_:
        ex._write(st, r.place, Agg([bv(a.ty, av + 1), b] + list(rng.fields[2:]), rng.variant, rng.ty))
        return Agg([a], "Some", "Option")
    return Agg([], "None", "Option")


def _i_step_forward(ex, st, fr, callee, args):
    a, n = args
    bits = INT_TYPES[a.ty][0]
    return Int(a.ty, simp(a.t + _fit(n.t, bits)))


def _i_slice_index(ex, st, fr, callee, args):
    sl, rng = args
    if not isinstance(sl, Slice):
        raise Unsupported("slice index on non-slice")
    ln = _t64(sl.len)
    if "RangeTo<" in callee:
        start, end = z3.BitVecVal(0, 64), rng.fields[0].t
    elif "RangeFrom<" in callee:
        start, end = rng.fields[0].t, ln
    elif "RangeFull" in callee:
        start, end = z3.BitVecVal(0, 64), ln
    else:
        start, end = rng.fields[0].t, rng.fields[1].t
    ex._oblige(st, "panic", "slice range index out of range", z3.Or(z3.UGT(start, end), z3.UGT(end, ln)), fr)
    st.apc.append(simp(z3.And(z3.ULE(start, end), z3.ULE(end, ln))))
    return Slice(sl.arr, simp(_t64(sl.off) + start), simp(end - start))


def _i_num_method(ex, st, fr, callee, args):
    m = re.search(r"(?:core|std)::num::<impl (\w+)>::(\w+)$", strip_generics(callee))
    ty, meth = m.group(1), m.group(2)
    bits, signed = INT_TYPES[ty]
    a = args[0]
    if meth in ("wrapping_add", "wrapping_sub", "wrapping_mul", "unchecked_add", "unchecked_sub", "unchecked_mul"):
        op = {"add": "Add", "sub": "Sub", "mul": "Mul"}[meth.split("_")[1]]
        return ex._binop(op, a, args[1])
    if meth == "wrapping_neg":
        return Int(a.ty, simp(-a.t))
    if meth in ("wrapping_shl", "wrapping_shr", "unchecked_shl", "unchecked_shr"):
        return ex._binop("Shl" if meth.endswith("shl") else "Shr", a, args[1])
    if meth == "leading_zeros":
        return _i_ctlz(ex, st, fr, callee, args)
    if meth == "trailing_zeros":
        return _i_cttz(ex, st, fr, callee, args)
    if meth == "rotate_right":
        return _i_rotr(ex, st, fr, callee, args)
    if meth == "rotate_left":
        return _i_rotl(ex, st, fr, callee, args)
    if meth in ("overflowing_add", "overflowing_sub", "overflowing_mul"):
        op = {"add": "AddWithOverflow", "sub": "SubWithOverflow", "mul": "MulWithOverflow"}[meth.split("_")[1]]
        return ex._binop(op, a, args[1])
    if meth in ("saturating_sub", "saturating_add") and not signed:
        b = args[1]
        if meth == "saturating_sub":
            return Int(a.ty, simp(z3.If(z3.ULT(a.t, b.t), z3.BitVecVal(0, bits), a.t - b.t)))
        s_ = a.t + b.t
        return Int(a.ty, simp(z3.If(z3.ULT(s_, a.t), z3.BitVecVal((1 << bits) - 1, bits), s_)))
    if meth in ("min", "max"):
        b = args[1]
        lt = (a.t < b.t) if signed else z3.ULT(a.t, b.t)
        return Int(a.ty, simp(z3.If(lt, a.t, b.t) if meth == "min" else z3.If(lt, b.t, a.t)))
    if meth == "abs" and signed:
        return Int(a.ty, simp(z3.If(a.t < 0, -a.t, a.t)))
    if meth == "unsigned_abs" and signed:
        uty = "u" + ty[1:]
        return Int(uty, simp(z3.If(a.t < 0, -a.t, a.t)))
    raise Unsupported("core::num method " + meth)


def _i_range_incl_contains(ex, st, fr, callee, args):
    r, x = args
    rng = ex._read(st, r.place) if isinstance(r, Ref) else r
    v = ex._read(st, x.place) if isinstance(x, Ref) else x
    lo, hi = rng.fields[0], rng.fields[1]
    signed = INT_TYPES[v.ty][1]
    ge = (v.t >= lo.t) if signed else z3.UGE(v.t, lo.t)
    le = (v.t <= hi.t) if signed else z3.ULE(v.t, hi.t)
    return Int("bool", simp(z3.And(ge, le)))


def _deref(ex, st, v):
    return ex._read(st, v.place) if isinstance(v, Ref) else v


def _i_struct_ne(ex, st, fr, callee, args):
    a, b = _deref(ex, st, args[0]), _deref(ex, st, args[1])
    if not (isinstance(a, Agg) and isinstance(b, Agg) and len(a.fields) == len(b.fields)):
        raise Unsupported("derived PartialEq on non-struct")
    ne = z3.Or([x.t != y.t for x, y in zip(a.fields, b.fields)])
    if callee.endswith("::eq"):
        return Int("bool", simp(z3.Not(ne)))
    return Int("bool", simp(ne))


def _i_range_bound(which):
    def f(ex, st, fr, callee, args):
        r = args[0]
        if not isinstance(r, Ref):
            raise Unsupported("range bound of non-reference")
        return Agg([Ref((r.place[0], r.place[1] + (("f", which),)))], "Included", "Bound")
    return f


def _i_identity(ex, st, fr, callee, args):
    return args[0]


DEFAULT_INTRINSICS = {
    r"<lexical_util::extended_float::ExtendedFloat<u64> as (std|core)::cmp::PartialEq>::(ne|eq)": _i_struct_ne,
    r"<(std|core)::ops::RangeInclusive<\w+> as (std|core)::ops::RangeBounds<\w+>>::start_bound": _i_range_bound(0),
    r"<(std|core)::ops::RangeInclusive<\w+> as (std|core)::ops::RangeBounds<\w+>>::end_bound": _i_range_bound(1),
    r"(core|std)::ops::RangeInclusive::<\w+>::contains::<\w+>|(core|std)::ops::RangeInclusive::contains": _i_range_incl_contains,
    r"(core|std)::num::<impl \w+>::\w+": _i_num_method,
    r"<(core|std)::ops::Range<\w+> as (core|std)::iter::IntoIterator>::into_iter": _i_identity,
    r"<\[\w+\] as (core|std)::ops::Index(Mut)?<(core|std)::ops::Range\w*(<usize>)?>>::index(_mut)?": _i_slice_index,
    r"<\w+ as (std|core)::iter::Step>::forward_unchecked": _i_step_forward,
    r"<(std|core)::ops::Range<\w+> as (std|core)::iter::Iterator>::next": _i_range_next,
    r"(core|std)::intrinsics::ctlz|ctlz|ctlz_nonzero|(core|std)::intrinsics::ctlz_nonzero": _i_ctlz,
    r"(core|std)::intrinsics::cttz|cttz|cttz_nonzero": _i_cttz,
    r"core::slice::<impl \[.*?\]>::get_unchecked": _i_get_unchecked,
    r"core::slice::<impl \[.*?\]>::get_unchecked_mut": _i_get_unchecked,
    r"(core|std)::intrinsics::cold_path|cold_path": _i_cold,
    r"(core|std)::ops::RangeInclusive::new": _i_range_incl_new,
    r"(core|std)::intrinsics::rotate_right|rotate_right": _i_rotr,
    r"(core|std)::intrinsics::rotate_left|rotate_left": _i_rotl,
    r"(core|std)::intrinsics::wrapping_add|wrapping_add": _wrapping("Add"),
    r"(core|std)::intrinsics::wrapping_sub|wrapping_sub": _wrapping("Sub"),
    r"(core|std)::intrinsics::wrapping_mul|wrapping_mul": _wrapping("Mul"),
    r"(core|std)::ptr::(mut|const)_ptr::<impl \*(mut|const) \w+>::add": _i_ptr_add,
}
