"""Engine S driver: dump MIR from /repo, execute kernels symbolically, discharge queries,
validate the translation against the real code, replay models natively."""
import concurrent.futures as cf
import json
import os
import re
import subprocess
import sys
import time

import z3

HERE = os.path.dirname(os.path.abspath(__file__))
sys.path.insert(0, HERE)
import mirparse  # noqa: E402
import mirexec  # noqa: E402
import solve  # noqa: E402
from mirexec import Program, Executor, Unsupported  # noqa: E402

VERIF = os.path.dirname(HERE)
WORK = os.path.join(VERIF, ".work")
SHIM = os.path.join(HERE, "shim")
REPO = os.environ.get("VERIF_REPO", "/repo")
ALT = REPO != "/repo"
ALT_TAG = re.sub(r"[^A-Za-z0-9]+", "_", REPO).strip("_") if ALT else ""
if ALT:
    import shutil
    _dst = os.path.join(WORK, "shim-crate-" + ALT_TAG)
    if os.environ.get("VERIF_ALT_SHIM_READY") != _dst:   # worker processes reuse the main process's copy
        os.environ["VERIF_ALT_SHIM_READY"] = _dst
        shutil.rmtree(_dst, ignore_errors=True)
        shutil.copytree(SHIM, _dst, ignore=shutil.ignore_patterns("target"))
        _ct = os.path.join(_dst, "Cargo.toml")
        _t = open(_ct).read()
        open(_ct, "w").write(_t.replace('"/repo/', '"%s/' % REPO.rstrip("/")))
    SHIM = _dst

MIR_FLAGS = ["-Zunpretty=mir", "-Ztrim-diagnostic-paths=no"]
SHIM_FLAGS = ["-Zmir-opt-level=2", "-Zinline-mir=yes", "-Zinline-mir-threshold=100000",
              "-Zinline-mir-hint-threshold=100000", "-C", "debug-assertions=off", "-C", "overflow-checks=on"]
DEP_CRATES = ["lexical-util", "lexical-write-integer", "lexical-parse-float", "lexical-write-float",
              "lexical-parse-integer"]


def _env():
    e = dict(os.environ)
    e.update({"CARGO_NET_OFFLINE": "true", "CARGO_TARGET_DIR": os.path.join(WORK, "shim-target" + ("-" + ALT_TAG if ALT else ""))})
    return e


def ensure_lock():
    dst = os.path.join(SHIM, "Cargo.lock")
    if not os.path.exists(dst):
        import shutil
        shutil.copy(os.path.join(REPO, "Cargo.lock"), dst)


def dump_mir(features=()):
    """Regenerate MIR text for the shim crate and the lexical crates from /repo's current sources."""
    ensure_lock()
    os.makedirs(WORK, exist_ok=True)
    tag = "-".join(features) or "default"
    out = {}
    feat = ["--features", ",".join(features)] if features else []
    t0 = time.time()

    def one(pkg, extra):
        # touching the source guarantees rustc re-runs (an up-to-date crate prints nothing)
        cmd = ["cargo", "+nightly", "rustc", "--offline", "--manifest-path", os.path.join(SHIM, "Cargo.toml"),
               "-p", pkg, "--lib"] + feat + ["--"] + MIR_FLAGS + extra
        p = subprocess.run(cmd, capture_output=True, text=True, env=_env(), cwd=SHIM)
        if p.returncode != 0 or not p.stdout.strip():
            # force rebuild once (cargo thought it was fresh)
            src = {"lexshim": os.path.join(SHIM, "src/lib.rs")}.get(pkg, os.path.join(REPO, pkg, "src/lib.rs"))
            os.utime(src, None)
            p = subprocess.run(cmd, capture_output=True, text=True, env=_env(), cwd=SHIM)
        if p.returncode != 0:
            raise RuntimeError("MIR dump failed for %s: %s" % (pkg, p.stderr[-2000:]))
        return p.stdout

    # cargo serialises on the target dir lock, so run sequentially; each is 0.5-8 s
    for pkg in DEP_CRATES:
        out[pkg] = one(pkg, [])
    out["lexshim"] = one("lexshim", SHIM_FLAGS)
    P = Program()
    P.add(*mirparse.parse(out["lexshim"]))
    for pkg in DEP_CRATES:
        P.add(*mirparse.parse(out[pkg]), crate=pkg.replace("-", "_"))
    P.dump_s = time.time() - t0
    P.sizes = {k: len(v) for k, v in out.items()}
    return P


_driver_built = {}


def build_driver(features=()):
    key = tuple(features)
    if key in _driver_built:
        return _driver_built[key]
    feat = ["--features", ",".join(features)] if features else []
    cmd = ["cargo", "build", "--offline", "--manifest-path", os.path.join(SHIM, "Cargo.toml"), "--bin", "driver"] + feat
    e = _env()
    e["CARGO_TARGET_DIR"] = os.path.join(WORK, "shim-driver-target-" + ("-".join(features) or "default") + ("-" + ALT_TAG if ALT else ""))
    p = subprocess.run(cmd, capture_output=True, text=True, env=e, cwd=SHIM)
    if p.returncode != 0:
        raise RuntimeError("driver build failed: " + p.stderr[-2000:])
    path = os.path.join(e["CARGO_TARGET_DIR"], "debug", "driver")
    _driver_built[key] = path
    return path


def native(features, kernel, args):
    """Call the real function through the shim driver. Returns the output line(s)."""
    path = build_driver(features)
    p = subprocess.run([path, kernel] + [str(a) for a in args], capture_output=True, text=True, timeout=60)
    return p.stdout.strip() if p.returncode == 0 else "PANIC " + p.stderr.strip().split("\n")[0][:200]


def native_batch(features, kernel, arg_lists):
    path = build_driver(features)
    inp = "\n".join(" ".join(str(a) for a in args) for args in arg_lists) + "\n"
    p = subprocess.run([path, "--batch", kernel], input=inp, capture_output=True, text=True, timeout=300)
    return p.stdout.strip().split("\n")


class Query:
    def __init__(self, qid, kind, desc, assertions, inputs, strategies=None, timeout_s=60, extra=None):
        self.qid = qid
        self.kind = kind          # panic-freedom | memory | property | witness
        self.desc = desc
        self.assertions = assertions
        # `extra`: facts implied by already-discharged obligations (passed asserts). The query is
        # first posed without them (fewer assumptions: an unsat verdict is still valid); only if
        # that is not unsat is it posed again with them.
        self.extra = extra or []
        self.inputs = inputs
        self.strategies = strategies
        self.timeout_s = timeout_s
        self.expect = "unsat"     # witnesses expect sat


def discharge(queries, jobs=16):
    """Run all queries on a pool of solver subprocesses."""
    texts = [solve.prepare(q.assertions, q.inputs) for q in queries]   # main thread only (z3 context)
    texts2 = [solve.prepare(q.assertions + q.extra, q.inputs) if q.extra else None for q in queries]

    def one(i):
        q = queries[i]
        kw = {"timeout_s": q.timeout_s}
        if q.strategies:
            kw["strategies"] = q.strategies
        elif q.kind == "property":
            kw["strategies"] = solve.PROPERTY_STAGES
        else:
            kw["strategies"] = solve.OBLIGATION_STAGES
        r = solve.check_text(texts[i], **kw)
        if r["status"] != "unsat" and q.extra and q.expect == "unsat":
            r2 = solve.check_text(texts2[i], **kw)
            r2["solver_s"] += r["solver_s"]
            r2["tried"] = r["tried"] + r2["tried"]
            return q, r2
        return q, r
    results = []
    with cf.ThreadPoolExecutor(jobs) as ex:
        for q, r in ex.map(one, range(len(queries))):
            results.append((q, r))
    return results
