"""Parser for rustc's `-Zunpretty=mir` text (nightly 1.97-ish) into a small AST.

Only the constructs Engine S executes are given structure; everything else is kept
as raw text so that the executor can refuse it loudly (never silently skip).
"""
import re


class MirFn:
    def __init__(self, name, kind):
        self.name = name
        self.kind = kind  # fn | const | static | promoted
        self.args = []    # [(local, ty)]
        self.ret_ty = None
        self.locals = {}  # name -> type string
        self.blocks = {}  # 'bb0' -> (stmts [str], terminator str)
        self.const_expr = None  # for `const X: T = const ...;`


class Alloc:
    def __init__(self, name, size, static):
        self.name = name
        self.size = size
        self.static = static
        self.data = bytearray()
        self.relocs = {}  # offset -> alloc name (pointers inside the allocation)


def split_top(s, sep=","):
    """Split on `sep` at nesting depth 0 of ()[]{}<> (quotes respected)."""
    out, depth, cur, i, n = [], 0, [], 0, len(s)
    in_str = False
    while i < n:
        c = s[i]
        if in_str:
            cur.append(c)
            if c == "\\" and i + 1 < n:
                cur.append(s[i + 1])
                i += 1
            elif c == '"':
                in_str = False
        elif c == '"':
            in_str = True
            cur.append(c)
        elif c in "([{":
            depth += 1
            cur.append(c)
        elif c in ")]}":
            depth -= 1
            cur.append(c)
        elif c == "<":
            depth += 1
            cur.append(c)
        elif c == ">" and s[i - 1] not in "-=" and depth > 0:
            depth -= 1
            cur.append(c)
        elif c == sep and depth == 0:
            out.append("".join(cur).strip())
            cur = []
        else:
            cur.append(c)
        i += 1
    last = "".join(cur).strip()
    if last or out:
        out.append(last)
    return out


_fn_re = re.compile(r"^fn (.+?)\((.*)\) -> (.+?) \{$")
_fn_unit_re = re.compile(r"^fn (.+?)\((.*)\) \{$")
_const_re = re.compile(r"^(const|static|static mut) (.+): (.+?) = \{$")
_const_inline_re = re.compile(r"^(const|static) (.+): (.+?) = (const .+);$")
_promoted_re = re.compile(r"^promoted\[(\d+)\] in (.+?): (.+?) = \{$")
_alloc_re = re.compile(r"^(alloc\d+) \((?:static: ([^,]+), )?size: (\d+), align: \d+\) \{")
_let_re = re.compile(r"^\s*let (?:mut )?(_\d+): (.+);$")
_bb_re = re.compile(r"^\s*(bb\d+)(?: \(cleanup\))?: \{$")


def parse(text):
    """Return (functions: {name: MirFn}, allocs: {name: Alloc})."""
    fns, allocs = {}, {}
    lines = text.split("\n")
    i, n = 0, len(lines)
    while i < n:
        line = lines[i]
        m = _alloc_re.match(line)
        if m:
            a = Alloc(m.group(1), int(m.group(3)), m.group(2))
            i += 1
            while i < n and not lines[i].startswith("}"):
                _parse_alloc_line(a, lines[i])
                i += 1
            # several functions print the same alloc; keep one copy (identical bytes)
            allocs[a.name] = a
            i += 1
            continue
        m = _const_inline_re.match(line)
        if m:
            f = MirFn(m.group(2), m.group(1))
            f.ret_ty = m.group(3)
            f.const_expr = m.group(4)
            fns[f.name] = f
            i += 1
            continue
        f = None
        m = _fn_re.match(line) or _fn_unit_re.match(line)
        if m and line.startswith("fn "):
            f = MirFn(m.group(1), "fn")
            for a in split_top(m.group(2)):
                if not a:
                    continue
                nm, ty = a.split(": ", 1)
                f.args.append((nm.strip(), ty.strip()))
                f.locals[nm.strip()] = ty.strip()
            f.ret_ty = m.group(3) if m.re is _fn_re else "()"
        else:
            m = _const_re.match(line)
            if m:
                f = MirFn(m.group(2), m.group(1).split()[0])
                f.ret_ty = m.group(3)
            else:
                m = _promoted_re.match(line)
                if m:
                    f = MirFn("%s::promoted[%s]" % (m.group(2), m.group(1)), "promoted")
                    f.ret_ty = m.group(3)
        if f is None:
            i += 1
            continue
        f.locals["_0"] = f.ret_ty
        i += 1
        cur_bb, stmts = None, []
        while i < n and lines[i] != "}":
            l = lines[i]
            ls = l.strip()
            i += 1
            if not ls or ls.startswith("//") or ls.startswith("debug ") or ls.startswith("scope ") or ls == "}" and cur_bb is None:
                continue
            m = _let_re.match(l)
            if m and cur_bb is None:
                f.locals[m.group(1)] = m.group(2)
                continue
            m = _bb_re.match(l)
            if m:
                cur_bb, stmts = m.group(1), []
                continue
            if cur_bb is not None:
                if ls == "}":
                    if not stmts:
                        raise ValueError("empty block %s in %s" % (cur_bb, f.name))
                    f.blocks[cur_bb] = (stmts[:-1], stmts[-1])
                    cur_bb = None
                    continue
                # statements may span lines only for long constants; join until ';'
                s = ls
                while not s.endswith(";") and i < n:
                    s += " " + lines[i].strip()
                    i += 1
                stmts.append(s[:-1])
        fns[f.name] = f
        i += 1
    return fns, allocs


def _parse_alloc_line(a, line):
    # `    0x00 │ 61 73 ... │ text` ; pointers print as `╾──allocN──╼` spanning 8 bytes
    parts = line.split("│")
    if len(parts) < 2:
        return
    off_m = re.match(r"\s*0x([0-9a-f]+)\s*$", parts[0])
    body = parts[1]
    toks = body.split()
    for t in toks:
        if re.fullmatch(r"[0-9a-f]{2}", t):
            a.data.append(int(t, 16))
        elif t == "__":
            a.data.append(0)  # uninitialised/padding byte
        elif "alloc" in t:
            m = re.search(r"(alloc\d+)", t)
            a.relocs[len(a.data)] = m.group(1)
            a.data.extend(b"\0" * 8)
        elif t in ("╾", "╼") or set(t) <= set("─╾╼"):
            continue
        else:
            # e.g. a pointer printed with offset; record as opaque
            m = re.search(r"(alloc\d+)", t)
            if m:
                a.relocs[len(a.data)] = m.group(1)
                a.data.extend(b"\0" * 8)
