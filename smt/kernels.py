"""Kernel obligations for Engine S: what is executed symbolically and what is asserted."""
import random
import re

import z3

import engine
from engine import Query
from mirexec import Executor, Int, Arr, Slice, Agg, INT_TYPES, Unsupported, conc, simp


def _bufglobal(n, name="buf"):
    els = [Int("u8", z3.BitVec("%s_in%d" % (name, i), 8)) for i in range(n)]
    return Arr(els)


class KernelResult:
    def __init__(self, kid):
        self.kid = kid
        self.queries = []      # Query
        self.paths = 0
        self.notes = []
        self.exec_s = 0.0


class Kernel:
    """Base: subclasses define symbolic(), concrete_cases(), interp(), violates()."""
    features = ()
    funcs = []
    desc = ""

    def __init__(self, kid):
        self.kid = kid


# ------------------------------------------------------------------ jeaiii decimal writers
class JeaiiiWriter(Kernel):
    """`jeaiii::from_uN(n, buf)` writes the canonical decimal numeral of n (all values of n)."""

    def __init__(self, kid, fn, ty, buflen, max_digits, pre=None, split=None):
        super().__init__(kid)
        self.fn = fn
        self.ty = ty
        self.buflen = buflen
        self.max_digits = max_digits
        self.pre = pre            # optional precondition on n (callers' contract), as lambda n -> z3 bool
        self.split = split        # optional list of (lo, hi) ranges to split the input space
        self.funcs = ["lexical_write_integer::jeaiii::" + fn, "jeaiii::next2", "digit_to_char_const",
                      "table_decimal::DIGIT_TO_BASE10_SQUARED"]
        self.desc = "%s: all %s values -> canonical decimal numeral, in-bounds writes, no panic (buffer of %d bytes)" % (
            fn, ty, buflen)

    def _args(self, nval):
        g = {("G", "buf"): _bufglobal(self.buflen)}
        sl = Slice((("G", "buf"), ()), 0, z3.BitVecVal(self.buflen, 64))
        return [Int(self.ty, nval), sl], g

    def symbolic(self, P):
        import time
        t0 = time.time()
        res = KernelResult(self.kid)
        bits = INT_TYPES[self.ty][0]
        n = z3.BitVec("n", bits)
        ex = Executor(P)
        args, g = self._args(n)
        pre = [self.pre(n)] if self.pre else []
        # the precondition goes in as the initial path condition
        paths = self._run(ex, args, g, pre)
        res.paths = len(paths)
        for i, o in enumerate(ex.obligations):
            kind = "memory" if o.kind in ("bounds", "assume") else "panic-freedom"
            res.queries.append(Query("%s/ob%d" % (self.kid, i), kind, "%s: %s @ %s" % (o.kind, o.msg, o.where),
                                     o.defs + pre + o.pc + [o.bad], ["n"], timeout_s=60, extra=o.apc))
        W = bits + 8
        for pi, p in enumerate(paths):
            buf = p.mem[("G", "buf")].elems
            k = p.ret
            bad = self._neg_property(n, k.t, buf, W)
            res.queries.append(Query("%s/path%d" % (self.kid, pi), "property",
                                     "canonical decimal numeral on path %d" % pi,
                                     p.defs + pre + p.pc + [bad], ["n"], timeout_s=120, extra=p.apc))
            # vacuity witness: the path is reachable
            q = Query("%s/path%d/reach" % (self.kid, pi), "witness", "path %d reachable" % pi,
                      p.defs + pre + p.pc + p.apc, ["n"], strategies=("z3-new", "cvc5"), timeout_s=30)
            q.expect = "sat"
            res.queries.append(q)
        res.exec_s = time.time() - t0
        res.notes.append("forks=%d obligations=%d" % (ex.nforks, len(ex.obligations)))
        return res

    def _run(self, ex, args, g, pre):
        from mirexec import State
        fn = ex.p.lookup(self.fn)
        if fn is None:
            raise Unsupported("no MIR for " + self.fn)
        st = State()
        st.mem.update(g)
        st.pc.extend(pre)
        ex._push(st, fn, args, None, None)
        work, done = [st], []
        while work:
            s = work.pop()
            r = ex._run_path(s, work)
            if r is not None:
                done.append(r)
        return done

    def _neg_property(self, n, k, buf, W):
        """not( k in 1..max_digits and buf[..k] is the canonical numeral of n )"""
        bits = n.size()
        nz = z3.ZeroExt(W - bits, n)
        cases = []
        kc = conc(k)
        for kk in range(1, self.max_digits + 1):
            if kc is not None and kc != kk:
                continue
            ds = [z3.ZeroExt(W - 8, buf[i].t) for i in range(kk)]
            val = z3.BitVecVal(0, W)
            ok = []
            for i in range(kk):
                ok.append(z3.And(z3.UGE(buf[i].t, 0x30), z3.ULE(buf[i].t, 0x39)))
                val = val * 10 + (ds[i] - 0x30)
            if kk > 1:
                ok.append(buf[0].t != 0x30)
            ok.append(val == nz)
            # bytes past the numeral are left as they were
            for i in range(kk, len(buf)):
                ok.append(buf[i].t == z3.BitVec("buf_in%d" % i, 8))
            cases.append(z3.And(ok) if kc is not None else z3.And(k == kk, z3.And(ok)))
        return z3.Not(z3.Or(cases))

    # -- translation validation
    def concrete_cases(self, seed):
        bits = INT_TYPES[self.ty][0]
        rnd = random.Random(seed * 7919 + bits)
        mx = (1 << bits) - 1
        cs = {0, 1, 9, 10, 99, 100, mx, mx - 1, mx // 2}
        for e in range(0, 40):
            for d in (-1, 0, 1):
                v = 10 ** e + d
                if 0 <= v <= mx:
                    cs.add(v)
        while len(cs) < 60:
            cs.add(rnd.randrange(0, mx + 1) >> rnd.randrange(0, bits))
        cs = sorted(cs)
        if self.pre:
            cs = [c for c in cs if z3.is_true(simp(self.pre(z3.BitVecVal(c, bits))))]
        return [[c, self.buflen] for c in cs]

    def interp(self, P, case):
        bits = INT_TYPES[self.ty][0]
        ex = Executor(P)
        args, g = self._args(z3.BitVecVal(case[0], bits))
        paths = ex.run(self.fn, args, g)
        for o in ex.obligations:
            if not z3.is_false(simp(z3.And(o.pc + [o.bad]))):
                return "PANIC"
        if len(paths) != 1:
            return "PATHS=%d" % len(paths)
        k = conc(paths[0].ret.t)
        bs = [conc(simp(e.t)) for e in paths[0].mem[("G", "buf")].elems[:k]]
        return "%d %s" % (k, "".join("%02x" % b for b in bs))

    def native_name(self):
        return self.fn

    def native_args(self, model):
        return [model.get("n", 0), self.buflen]

    def violates(self, model, out):
        n = model.get("n", 0)
        want = str(n).encode()
        return out != "%d %s" % (len(want), want.hex())


def u64_pre_i64(n):
    return z3.ULE(n, z3.BitVecVal(1 << 63, 64))


KERNELS = {}


def register(k):
    KERNELS[k.kid] = k
    return k


register(JeaiiiWriter("jeaiii_u8", "from_u8", "u8", 3, 3))
register(JeaiiiWriter("jeaiii_u16", "from_u16", "u16", 5, 5))
register(JeaiiiWriter("jeaiii_u32", "from_u32", "u32", 10, 10))
register(JeaiiiWriter("jeaiii_u64", "from_u64", "u64", 20, 20))
register(JeaiiiWriter("jeaiii_i64", "from_i64", "u64", 19, 19, pre=u64_pre_i64))
register(JeaiiiWriter("jeaiii_u128", "from_u128", "u128", 39, 39))


# ------------------------------------------------------------------ generic scalar kernels
class ScalarKernel(Kernel):
    """A function of scalar arguments. Every MIR obligation (assert, panic, bounds, assume) must be
    unreachable for all argument values satisfying `pre`; optionally the boolean/struct result must
    satisfy `post` (given as a function building the *negated* property)."""

    def __init__(self, kid, fn, argspec, desc, pre=None, negpost=None, cases=None, fmt_out=None, violates=None,
                 funcs=None, timeout_s=60, concrete=None, feas_ms=1500):
        super().__init__(kid)
        self.fn = fn
        self.argspec = argspec    # [(name, ty)]
        self.desc = desc
        self.pre = pre            # lambda vars(dict name->z3) -> [z3 bool]
        self.negpost = negpost    # lambda vars, ret(value) -> z3 bool (negated property) or None
        self.cases_fn = cases
        self.fmt_out = fmt_out or _fmt_scalar
        self.violates_fn = violates
        self.funcs = funcs or [fn]
        self.timeout_s = timeout_s
        self.concrete = concrete or {}   # name -> concrete value (kernel specialised to it)
        self.feas_ms = feas_ms

    def _vars(self):
        vs = {}
        for nm, ty in self.argspec:
            if nm in self.concrete:
                v = self.concrete[nm]
                vs[nm] = z3.BoolVal(bool(v)) if ty == "bool" else z3.BitVecVal(v, INT_TYPES[ty][0])
            elif ty == "bool":
                vs[nm] = z3.Bool(nm)
            else:
                vs[nm] = z3.BitVec(nm, INT_TYPES[ty][0])
        return vs

    def symbolic(self, P):
        import time
        from mirexec import State
        t0 = time.time()
        res = KernelResult(self.kid)
        vs = self._vars()
        pre = self.pre(vs) if self.pre else []
        ex = Executor(P, feas_timeout_ms=self.feas_ms)
        fn = P.lookup(self.fn)
        if fn is None:
            raise Unsupported("no MIR for " + self.fn)
        st = State()
        st.pc.extend(pre)
        ex._push(st, fn, [Int(ty, vs[nm]) for nm, ty in self.argspec], None, None)
        work, paths = [st], []
        while work:
            s = work.pop()
            r = ex._run_path(s, work)
            if r is not None:
                paths.append(r)
        res.paths = len(paths)
        names = [nm for nm, _ in self.argspec if nm not in self.concrete]
        for i, o in enumerate(ex.obligations):
            kind = "memory" if o.kind in ("bounds", "assume") else "panic-freedom"
            res.queries.append(Query("%s/ob%d" % (self.kid, i), kind, "%s: %s @ %s" % (o.kind, o.msg, o.where),
                                     o.defs + o.pc + [o.bad], names, timeout_s=self.timeout_s, extra=o.apc))
        for pi, p in enumerate(paths):
            if self.negpost is not None:
                bad = self.negpost(vs, p.ret)
                res.queries.append(Query("%s/path%d" % (self.kid, pi), "property", "postcondition on path %d" % pi,
                                         p.defs + p.pc + [bad], names, timeout_s=self.timeout_s, extra=p.apc))
        # one reachability witness per kernel: some path returns
        if paths:
            alts = [z3.And(p.defs + p.pc + p.apc) if (p.defs + p.pc + p.apc) else z3.BoolVal(True) for p in paths]
            q = Query("%s/reach" % self.kid, "witness", "some returning path is reachable", [z3.Or(alts)],
                      names, strategies=("cvc5", "z3-new"), timeout_s=60)
            q.expect = "sat"
            res.queries.append(q)
        res.exec_s = time.time() - t0
        res.notes.append("forks=%d obligations=%d" % (ex.nforks, len(ex.obligations)))
        return res

    def concrete_cases(self, seed):
        return self.cases_fn(seed)

    def interp(self, P, case):
        ex = Executor(P)
        args = []
        for (nm, ty), v in zip(self.argspec, case):
            if ty == "bool":
                args.append(Int("bool", z3.BoolVal(bool(v))))
            else:
                args.append(Int(ty, z3.BitVecVal(v, INT_TYPES[ty][0])))
        paths = ex.run(self.fn, args)
        for o in ex.obligations:
            if not z3.is_false(simp(z3.And(o.pc + [o.bad]))):
                return "PANIC"
        if len(paths) != 1:
            return "PATHS=%d" % len(paths)
        return self.fmt_out(paths[0].ret)

    def native_name(self):
        return self.fn

    def native_args(self, model):
        out = []
        for nm, ty in self.argspec:
            v = self.concrete.get(nm, model.get(nm, 0))
            bits = 1 if ty == "bool" else INT_TYPES[ty][0]
            if ty != "bool" and INT_TYPES[ty][1] and v >= (1 << (bits - 1)):
                v -= 1 << bits
            out.append(int(v))
        return out

    def violates(self, model, out):
        if self.violates_fn:
            return self.violates_fn(self.native_args(model), out)
        return out.startswith("PANIC")


def _fmt_scalar(v):
    if isinstance(v, Int):
        c = conc(simp(v.t))
        return str(c)
    if isinstance(v, Agg):
        parts = []
        for f in v.fields:
            c = conc(simp(f.t))
            bits, signed = INT_TYPES.get(f.ty, (1, False))
            if signed and c >= (1 << (bits - 1)):
                c -= 1 << bits
            parts.append(str(c))
        return " ".join(parts)
    return "?"


def _lemire_cases(lo, hi):
    def f(seed):
        rnd = random.Random(seed + 17)
        cs = []
        for q in (lo - 1, lo, lo + 1, -28, -27, -1, 0, 1, 27, 28, 55, 56, hi - 1, hi, hi + 1):
            for w in (0, 1, 9007199254740993, 0xFFFFFFFFFFFFFFFF, 1 << 63, 123456789012345678):
                cs.append([q & ((1 << 64) - 1), w, rnd.randrange(2)])
        for _ in range(40):
            cs.append([rnd.randrange(lo - 5, hi + 6) & ((1 << 64) - 1), rnd.getrandbits(64) >> rnd.randrange(64), rnd.randrange(2)])
        return cs
    return f


def _signed_cases(f):
    def g(seed):
        out = []
        for c in f(seed):
            q = c[0] - (1 << 64) if c[0] >= (1 << 63) else c[0]
            out.append([q] + c[1:])
        return out
    return g


class _LemireKernel(ScalarKernel):
    """interp() needs unsigned encodings; native driver needs signed decimal."""

    def concrete_cases(self, seed):
        return self.cases_fn(seed)

    def interp(self, P, case):
        c = list(case)
        c[0] = c[0] & ((1 << 64) - 1)
        return super().interp(P, c)


for _f, _lo, _hi in (("f64", -342, 308), ("f32", -65, 38)):
    register(_LemireKernel(
        "lemire_nopanic_" + _f, "compute_float_" + _f, [("q", "i64"), ("w", "u64"), ("lossy", "bool")],
        "lemire::compute_float::<%s>(q, w, lossy): no panic, no overflow, table index in range for every q: i64, w: u64, lossy" % _f,
        cases=_signed_cases(_lemire_cases(_lo, _hi)),
        funcs=["lexical_parse_float::lemire::compute_float::<%s>" % _f, "lemire::compute_product_approx", "lemire::power", "table_lemire::POWER_OF_FIVE_128"],
        timeout_s=120, feas_ms=40))
    register(_LemireKernel(
        "lemire_lossy_rel_" + _f, "lemire_lossy_rel_" + _f, [("q", "i64"), ("w", "u64")],
        "compute_float::<%s>(q,w,lossy=true) equals compute_float(q,w,false) unless the exact algorithm returns the error marker; all q, all 64-bit w" % _f,
        negpost=lambda vs, ret: z3.Not(ret.t),
        cases=lambda seed, lo=_lo, hi=_hi: [c[:2] for c in _signed_cases(_lemire_cases(lo, hi))(seed)],
        violates=lambda args, out: out.strip() != "1",
        funcs=["lexical_parse_float::lemire::compute_float::<%s> (twice, relational)" % _f],
        timeout_s=120, feas_ms=40))


def get(kid):
    """Kernel lookup. `base@var=VAL` specialises an argument to a constant (one table row);
    `base@var<VAL` / `base@var>VAL` restricts it to a (signed) range."""
    import copy
    if "@" not in kid:
        return KERNELS[kid]
    base, spec = kid.split("@", 1)
    k = copy.copy(KERNELS[base])
    k.kid = kid
    m = re.fullmatch(r"(\w+)(=|<|>)(-?\d+)", spec)
    var, op, val = m.group(1), m.group(2), int(m.group(3))
    ty = dict(k.argspec)[var]
    bits = INT_TYPES[ty][0]
    if op == "=":
        k.concrete = dict(k.concrete)
        k.concrete[var] = val & ((1 << bits) - 1)
        k.desc = k.desc + " [row %s=%d]" % (var, val)
        oldcases = k.cases_fn
        idx = [n for n, _ in k.argspec].index(var)
        k.cases_fn = lambda seed: [c[:idx] + [val] + c[idx + 1:] for c in oldcases(seed)][:12]
    else:
        oldpre = k.pre
        cv = z3.BitVecVal(val & ((1 << bits) - 1), bits)
        rel = (lambda v: v < cv) if op == "<" else (lambda v: v > cv)
        k.pre = lambda vs: (oldpre(vs) if oldpre else []) + [rel(vs[var])]
        k.desc = k.desc + " [all %s %s %d]" % (var, op, val)
        oldcases = k.cases_fn
        idx = [n for n, _ in k.argspec].index(var)
        k.cases_fn = lambda seed: [c for c in oldcases(seed) if (c[idx] < val if op == "<" else c[idx] > val)][:12]
    return k
