"""Kernel obligations for Engine S: what is executed symbolically and what is asserted."""
import random
import re

import z3

import engine
from engine import Query
from mirexec import Executor, Int, Arr, Slice, Agg, INT_TYPES, Unsupported, conc, simp


def _bufglobal(n, name="buf"):
    els = [Int("u8", z3.BitVec("%s_in%d" % (name, i), 8)) for i in range(n)]
    return Arr(els)


class KernelResult:
    def __init__(self, kid):
        self.kid = kid
        self.queries = []      # Query
        self.paths = 0
        self.notes = []
        self.exec_s = 0.0


class Kernel:
    """Base: subclasses define symbolic(), concrete_cases(), interp(), violates()."""
    features = ()
    funcs = []
    desc = ""

    def __init__(self, kid):
        self.kid = kid


# ------------------------------------------------------------------ jeaiii decimal writers
class JeaiiiWriter(Kernel):
    """`jeaiii::from_uN(n, buf)` writes the canonical decimal numeral of n (all values of n)."""

    def __init__(self, kid, fn, ty, buflen, max_digits, pre=None, split=None):
        super().__init__(kid)
        self.fn = fn
        self.ty = ty
        self.buflen = buflen
        self.max_digits = max_digits
        self.pre = pre            # optional precondition on n (callers' contract), as lambda n -> z3 bool
        self.split = split        # optional list of (lo, hi) ranges to split the input space
        self.funcs = ["lexical_write_integer::jeaiii::" + fn, "jeaiii::next2", "digit_to_char_const",
                      "table_decimal::DIGIT_TO_BASE10_SQUARED"]
        self.desc = "%s: all %s values -> canonical decimal numeral, in-bounds writes, no panic (buffer of %d bytes)" % (
            fn, ty, buflen)

    def _args(self, nval):
        g = {("G", "buf"): _bufglobal(self.buflen)}
        sl = Slice((("G", "buf"), ()), 0, z3.BitVecVal(self.buflen, 64))
        return [Int(self.ty, nval), sl], g

    def symbolic(self, P):
        import time
        t0 = time.time()
        res = KernelResult(self.kid)
        bits = INT_TYPES[self.ty][0]
        n = z3.BitVec("n", bits)
        ex = Executor(P)
        args, g = self._args(n)
        pre = [self.pre(n)] if self.pre else []
        # the precondition goes in as the initial path condition
        paths = self._run(ex, args, g, pre)
        res.paths = len(paths)
        for i, o in enumerate(ex.obligations):
            kind = "memory" if o.kind in ("bounds", "assume") else "panic-freedom"
            res.queries.append(Query("%s/ob%d" % (self.kid, i), kind, "%s: %s @ %s" % (o.kind, o.msg, o.where),
                                     o.defs + pre + o.pc + [o.bad], ["n"], timeout_s=60, extra=o.apc))
        W = bits + 8
        for pi, p in enumerate(paths):
            buf = p.mem[("G", "buf")].elems
            k = p.ret
            bad = self._neg_property(n, k.t, buf, W)
            res.queries.append(Query("%s/path%d" % (self.kid, pi), "property",
                                     "canonical decimal numeral on path %d" % pi,
                                     p.defs + pre + p.pc + [bad], ["n"], timeout_s=120, extra=p.apc))
            # vacuity witness: the path is reachable
            q = Query("%s/path%d/reach" % (self.kid, pi), "witness", "path %d reachable" % pi,
                      p.defs + pre + p.pc + p.apc, ["n"], strategies=("z3-new", "cvc5"), timeout_s=30)
            q.expect = "sat"
            res.queries.append(q)
        res.exec_s = time.time() - t0
        res.notes.append("forks=%d obligations=%d" % (ex.nforks, len(ex.obligations)))
        return res

    def _run(self, ex, args, g, pre):
        from mirexec import State
        fn = ex.p.lookup(self.fn)
        if fn is None:
            raise Unsupported("no MIR for " + self.fn)
        st = State()
        st.mem.update(g)
        st.pc.extend(pre)
        ex._push(st, fn, args, None, None)
        work, done = [st], []
        while work:
            s = work.pop()
            r = ex._run_path(s, work)
            if r is not None:
                done.append(r)
        return done

    def _neg_property(self, n, k, buf, W):
        """not( k in 1..max_digits and buf[..k] is the canonical numeral of n )"""
        bits = n.size()
        nz = z3.ZeroExt(W - bits, n)
        cases = []
        kc = conc(k)
        for kk in range(1, self.max_digits + 1):
            if kc is not None and kc != kk:
                continue
            ds = [z3.ZeroExt(W - 8, buf[i].t) for i in range(kk)]
            val = z3.BitVecVal(0, W)
            ok = []
            for i in range(kk):
                ok.append(z3.And(z3.UGE(buf[i].t, 0x30), z3.ULE(buf[i].t, 0x39)))
                val = val * 10 + (ds[i] - 0x30)
            if kk > 1:
                ok.append(buf[0].t != 0x30)
            ok.append(val == nz)
            # bytes past the numeral are left as they were
            for i in range(kk, len(buf)):
                ok.append(buf[i].t == z3.BitVec("buf_in%d" % i, 8))
            cases.append(z3.And(ok) if kc is not None else z3.And(k == kk, z3.And(ok)))
        return z3.Not(z3.Or(cases))

    # -- translation validation
    def concrete_cases(self, seed):
        bits = INT_TYPES[self.ty][0]
        rnd = random.Random(seed * 7919 + bits)
        mx = (1 << bits) - 1
        cs = {0, 1, 9, 10, 99, 100, mx, mx - 1, mx // 2}
        for e in range(0, 40):
            for d in (-1, 0, 1):
                v = 10 ** e + d
                if 0 <= v <= mx:
                    cs.add(v)
        while len(cs) < 60:
            cs.add(rnd.randrange(0, mx + 1) >> rnd.randrange(0, bits))
        cs = sorted(cs)
        if self.pre:
            cs = [c for c in cs if z3.is_true(simp(self.pre(z3.BitVecVal(c, bits))))]
        return [[c, self.buflen] for c in cs]

    def interp(self, P, case):
        bits = INT_TYPES[self.ty][0]
        ex = Executor(P)
        args, g = self._args(z3.BitVecVal(case[0], bits))
        paths = ex.run(self.fn, args, g)
        for o in ex.obligations:
            if not z3.is_false(simp(z3.And(o.pc + [o.bad]))):
                return "PANIC"
        if len(paths) != 1:
            return "PATHS=%d" % len(paths)
        k = conc(paths[0].ret.t)
        bs = [conc(simp(e.t)) for e in paths[0].mem[("G", "buf")].elems[:k]]
        return "%d %s" % (k, "".join("%02x" % b for b in bs))

    def native_name(self):
        return self.fn

    def native_args(self, model):
        return [model.get("n", 0), self.buflen]

    def violates(self, model, out):
        n = model.get("n", 0)
        want = str(n).encode()
        return out != "%d %s" % (len(want), want.hex())


def u64_pre_i64(n):
    return z3.ULE(n, z3.BitVecVal(1 << 63, 64))


KERNELS = {}


def register(k):
    KERNELS[k.kid] = k
    return k


register(JeaiiiWriter("jeaiii_u8", "from_u8", "u8", 3, 3))
register(JeaiiiWriter("jeaiii_u16", "from_u16", "u16", 5, 5))
register(JeaiiiWriter("jeaiii_u32", "from_u32", "u32", 10, 10))
register(JeaiiiWriter("jeaiii_u64", "from_u64", "u64", 20, 20))
register(JeaiiiWriter("jeaiii_i64", "from_i64", "u64", 19, 19, pre=u64_pre_i64))
register(JeaiiiWriter("jeaiii_u128", "from_u128", "u128", 39, 39))
