"""Kernel obligations for Engine S: what is executed symbolically and what is asserted."""
import random
import re

import z3

import engine
from engine import Query
from mirexec import Executor, Int, Arr, Slice, Agg, INT_TYPES, Unsupported, conc, simp


def _bufglobal(n, name="buf"):
    els = [Int("u8", z3.BitVec("%s_in%d" % (name, i), 8)) for i in range(n)]
    return Arr(els)


class KernelResult:
    def __init__(self, kid):
        self.kid = kid
        self.queries = []      # Query
        self.paths = 0
        self.notes = []
        self.exec_s = 0.0


class Kernel:
    """Base: subclasses define symbolic(), concrete_cases(), interp(), violates()."""
    features = ()
    funcs = []
    desc = ""

    def __init__(self, kid):
        self.kid = kid


# ------------------------------------------------------------------ jeaiii decimal writers
class JeaiiiWriter(Kernel):
    """`jeaiii::from_uN(n, buf)` writes the canonical decimal numeral of n (all values of n)."""

    def __init__(self, kid, fn, ty, buflen, max_digits, pre=None, split=None):
        super().__init__(kid)
        self.fn = fn
        self.ty = ty
        self.buflen = buflen
        self.max_digits = max_digits
        self.pre = pre            # optional precondition on n (callers' contract), as lambda n -> z3 bool
        self.split = split        # optional list of (lo, hi) ranges to split the input space
        self.funcs = ["lexical_write_integer::jeaiii::" + fn, "jeaiii::next2", "digit_to_char_const",
                      "table_decimal::DIGIT_TO_BASE10_SQUARED"]
        self.desc = "%s: all %s values -> canonical decimal numeral, in-bounds writes, no panic (buffer of %d bytes)" % (
            fn, ty, buflen)

    def _args(self, nval):
        g = {("G", "buf"): _bufglobal(self.buflen)}
        sl = Slice((("G", "buf"), ()), 0, z3.BitVecVal(self.buflen, 64))
        return [Int(self.ty, nval), sl], g

    def symbolic(self, P):
        import time
        t0 = time.time()
        res = KernelResult(self.kid)
        bits = INT_TYPES[self.ty][0]
        n = z3.BitVec("n", bits)
        ex = Executor(P)
        args, g = self._args(n)
        pre = [self.pre(n)] if self.pre else []
        # the precondition goes in as the initial path condition
        paths = self._run(ex, args, g, pre)
        res.paths = len(paths)
        for i, o in enumerate(ex.obligations):
            kind = "memory" if o.kind in ("bounds", "assume") else "panic-freedom"
            res.queries.append(Query("%s/ob%d" % (self.kid, i), kind, "%s: %s @ %s" % (o.kind, o.msg, o.where),
                                     o.defs + pre + o.pc + [o.bad], ["n"], timeout_s=60, extra=o.apc))
        W = bits + 8
        for pi, p in enumerate(paths):
            buf = p.mem[("G", "buf")].elems
            k = p.ret
            kc = conc(k.t)
            split = None
            for (dx, dy, dq, dr) in p.divs:
                if dx.eq(n) and conc(dy) == 10 ** 10 and kc is not None and kc > 10:
                    split = (dq, dr)
                    break
            if split is None:
                bad = self._neg_property(n, k.t, buf, W)
                res.queries.append(Query("%s/path%d" % (self.kid, pi), "property",
                                         "canonical decimal numeral on path %d" % pi,
                                         p.defs + pre + p.pc + [bad], ["n"], timeout_s=120, extra=p.apc))
            else:
                # n = q * 10^10 + r (division lemma of the code's own `/` and `%`): decide the head
                # digits against q, the last ten digits against r, then the whole numeral from both.
                q, r = split
                h = kc - 10
                WW = W + 8

                def val(ds):
                    v = z3.BitVecVal(0, WW)
                    for d in ds:
                        v = v * 10 + (z3.ZeroExt(WW - 8, d.t) - 0x30)
                    return v

                def isdig(ds):
                    return z3.And([z3.And(z3.UGE(d.t, 0x30), z3.ULE(d.t, 0x39)) for d in ds])
                A = z3.And(isdig(buf[:h]), val(buf[:h]) == z3.ZeroExt(WW - bits, q), buf[0].t != 0x30)
                B = z3.And(isdig(buf[h:kc]), val(buf[h:kc]) == z3.ZeroExt(WW - bits, r))
                Pfull = z3.Not(self._neg_property(n, k.t, buf, W))
                base = p.defs + pre + p.pc
                res.queries.append(Query("%s/path%d/head" % (self.kid, pi), "property", "head digits denote n / 10^10 on path %d" % pi,
                                         base + [z3.Not(A)], ["n"], timeout_s=120, extra=p.apc))
                res.queries.append(Query("%s/path%d/tail" % (self.kid, pi), "property", "last ten digits denote n %% 10^10 on path %d" % pi,
                                         base + [z3.Not(B)], ["n"], timeout_s=120, extra=p.apc))
                res.queries.append(Query("%s/path%d/compose" % (self.kid, pi), "property", "head and tail lemmas imply the canonical numeral on path %d" % pi,
                                         base + [A, B, z3.Not(Pfull)], ["n"], timeout_s=120, extra=p.apc))
            # vacuity witness: the path is reachable
            q_ = Query("%s/path%d/reach" % (self.kid, pi), "witness", "path %d reachable" % pi,
                       p.defs + pre + p.pc + p.apc, ["n"], strategies=("z3-new", "cvc5"), timeout_s=30)
            q_.expect = "sat"
            res.queries.append(q_)
        res.exec_s = time.time() - t0
        res.notes.append("forks=%d obligations=%d" % (ex.nforks, len(ex.obligations)))
        return res

    def _run(self, ex, args, g, pre):
        from mirexec import State
        fn = ex.p.lookup(self.fn)
        if fn is None:
            raise Unsupported("no MIR for " + self.fn)
        st = State()
        st.mem.update(g)
        st.pc.extend(pre)
        ex._push(st, fn, args, None, None)
        work, done = [st], []
        while work:
            s = work.pop()
            r = ex._run_path(s, work)
            if r is not None:
                done.append(r)
        return done

    def _neg_property(self, n, k, buf, W):
        """not( k in 1..max_digits and buf[..k] is the canonical numeral of n )"""
        bits = n.size()
        nz = z3.ZeroExt(W - bits, n)
        cases = []
        kc = conc(k)
        for kk in range(1, self.max_digits + 1):
            if kc is not None and kc != kk:
                continue
            ds = [z3.ZeroExt(W - 8, buf[i].t) for i in range(kk)]
            val = z3.BitVecVal(0, W)
            ok = []
            for i in range(kk):
                ok.append(z3.And(z3.UGE(buf[i].t, 0x30), z3.ULE(buf[i].t, 0x39)))
                val = val * 10 + (ds[i] - 0x30)
            if kk > 1:
                ok.append(buf[0].t != 0x30)
            ok.append(val == nz)
            # bytes past the numeral are left as they were
            for i in range(kk, len(buf)):
                ok.append(buf[i].t == z3.BitVec("buf_in%d" % i, 8))
            cases.append(z3.And(ok) if kc is not None else z3.And(k == kk, z3.And(ok)))
        return z3.Not(z3.Or(cases))

    # -- translation validation
    def concrete_cases(self, seed):
        bits = INT_TYPES[self.ty][0]
        rnd = random.Random(seed * 7919 + bits)
        mx = (1 << bits) - 1
        cs = {0, 1, 9, 10, 99, 100, mx, mx - 1, mx // 2}
        for e in range(0, 40):
            for d in (-1, 0, 1):
                v = 10 ** e + d
                if 0 <= v <= mx:
                    cs.add(v)
        while len(cs) < 60:
            cs.add(rnd.randrange(0, mx + 1) >> rnd.randrange(0, bits))
        cs = sorted(cs)
        if self.pre:
            cs = [c for c in cs if z3.is_true(simp(self.pre(z3.BitVecVal(c, bits))))]
        return [[c, self.buflen] for c in cs]

    def interp(self, P, case):
        bits = INT_TYPES[self.ty][0]
        ex = Executor(P)
        args, g = self._args(z3.BitVecVal(case[0], bits))
        paths = ex.run(self.fn, args, g)
        for o in ex.obligations:
            if not z3.is_false(simp(z3.And(o.pc + [o.bad]))):
                return "PANIC"
        if len(paths) != 1:
            return "PATHS=%d" % len(paths)
        k = conc(paths[0].ret.t)
        bs = [conc(simp(e.t)) for e in paths[0].mem[("G", "buf")].elems[:k]]
        return "%d %s" % (k, "".join("%02x" % b for b in bs))

    def native_name(self):
        return self.fn

    def native_args(self, model):
        return [model.get("n", 0), self.buflen]

    def violates(self, model, out):
        n = model.get("n", 0)
        want = str(n).encode()
        return out != "%d %s" % (len(want), want.hex())


def u64_pre_i64(n):
    return z3.ULE(n, z3.BitVecVal(1 << 63, 64))


KERNELS = {}


def register(k):
    KERNELS[k.kid] = k
    return k


register(JeaiiiWriter("jeaiii_u8", "from_u8", "u8", 3, 3))
register(JeaiiiWriter("jeaiii_u16", "from_u16", "u16", 5, 5))
register(JeaiiiWriter("jeaiii_u32", "from_u32", "u32", 10, 10))
register(JeaiiiWriter("jeaiii_u64", "from_u64", "u64", 20, 20))
register(JeaiiiWriter("jeaiii_i64", "from_i64", "u64", 19, 19, pre=u64_pre_i64))
register(JeaiiiWriter("jeaiii_u128", "from_u128", "u128", 39, 39))


# ------------------------------------------------------------------ generic scalar kernels
class ScalarKernel(Kernel):
    """A function of scalar arguments. Every MIR obligation (assert, panic, bounds, assume) must be
    unreachable for all argument values satisfying `pre`; optionally the boolean/struct result must
    satisfy `post` (given as a function building the *negated* property)."""

    def __init__(self, kid, fn, argspec, desc, pre=None, negpost=None, cases=None, fmt_out=None, violates=None,
                 funcs=None, timeout_s=60, concrete=None, feas_ms=1500, unwind=None, intrinsics=None):
        super().__init__(kid)
        self.fn = fn
        self.argspec = argspec    # [(name, ty)]
        self.desc = desc
        self.pre = pre            # lambda vars(dict name->z3) -> [z3 bool]
        self.negpost = negpost    # lambda vars, ret(value) -> z3 bool (negated property) or None
        self.cases_fn = cases
        self.fmt_out = fmt_out or _fmt_scalar
        self.violates_fn = violates
        self.funcs = funcs or [fn]
        self.timeout_s = timeout_s
        self.concrete = concrete or {}   # name -> concrete value (kernel specialised to it)
        self.feas_ms = feas_ms
        self.unwind = unwind
        self.extra_intrinsics = intrinsics or {}

    def _vars(self):
        vs = {}
        for nm, ty in self.argspec:
            if nm in self.concrete:
                v = self.concrete[nm]
                vs[nm] = z3.BoolVal(bool(v)) if ty == "bool" else z3.BitVecVal(v, INT_TYPES[ty][0])
            elif ty == "bool":
                vs[nm] = z3.Bool(nm)
            else:
                vs[nm] = z3.BitVec(nm, INT_TYPES[ty][0])
        return vs

    def symbolic(self, P):
        import time
        from mirexec import State
        t0 = time.time()
        res = KernelResult(self.kid)
        vs = self._vars()
        pre = self.pre(vs) if self.pre else []
        ex = Executor(P, feas_timeout_ms=self.feas_ms, unwind=self.unwind)
        if self.extra_intrinsics:
            ex.intrinsics = dict(self.extra_intrinsics, **ex.intrinsics) if False else dict(list(self.extra_intrinsics.items()) + list(ex.intrinsics.items()))
        hint = getattr(self, "clz_hint", None)
        if hint:
            # sound only because `pre` pins the leading-zero count of that input (checked here)
            for nm, kk in hint.items():
                bits = INT_TYPES[dict(self.argspec)[nm]][0]
                need = [z3.UGE(vs[nm], z3.BitVecVal(1 << (bits - 1 - kk), bits)), z3.ULE(vs[nm], z3.BitVecVal((1 << (bits - kk)) - 1, bits))]
                if not all(any(n.eq(p_) for p_ in pre) for n in need):
                    raise Unsupported("clz hint without the matching range precondition")
                ex.clz_known[vs[nm].get_id()] = (vs[nm], kk)
        fn = P.lookup(self.fn)
        if fn is None:
            raise Unsupported("no MIR for " + self.fn)
        st = State()
        st.pc.extend(pre)
        ex._push(st, fn, [Int(ty, vs[nm]) for nm, ty in self.argspec], None, None)
        work, paths = [st], []
        while work:
            s = work.pop()
            r = ex._run_path(s, work)
            if r is not None:
                paths.append(r)
        res.paths = len(paths)
        names = [nm for nm, _ in self.argspec if nm not in self.concrete]
        for i, o in enumerate(ex.obligations):
            kind = "memory" if o.kind in ("bounds", "assume") else "panic-freedom"
            res.queries.append(Query("%s/ob%d" % (self.kid, i), kind, "%s: %s @ %s" % (o.kind, o.msg, o.where),
                                     o.defs + o.pc + [o.bad], names, timeout_s=self.timeout_s, extra=o.apc))
        for pi, p in enumerate(paths):
            if self.negpost is not None:
                bad = self.negpost(vs, p.ret)
                res.queries.append(Query("%s/path%d" % (self.kid, pi), "property", "postcondition on path %d" % pi,
                                         p.defs + p.pc + [bad], names, timeout_s=self.timeout_s, extra=p.apc,
                                         strategies=getattr(self, "prop_strategies", None)))
        # one reachability witness per kernel: some path returns
        if paths:
            alts = [z3.And(p.defs + p.pc + p.apc) if (p.defs + p.pc + p.apc) else z3.BoolVal(True) for p in paths]
            q = Query("%s/reach" % self.kid, "witness", "some returning path is reachable", [z3.Or(alts)],
                      names, strategies=("cvc5", "z3-new"), timeout_s=60)
            q.expect = "sat"
            res.queries.append(q)
        res.exec_s = time.time() - t0
        res.notes.append("forks=%d obligations=%d" % (ex.nforks, len(ex.obligations)))
        return res

    def concrete_cases(self, seed):
        return self.cases_fn(seed)

    def interp(self, P, case):
        ex = Executor(P)     # concrete runs use the real callee bodies (no contracts), so they validate those too
        args = []
        for (nm, ty), v in zip(self.argspec, case):
            if ty == "bool":
                args.append(Int("bool", z3.BoolVal(bool(v))))
            else:
                args.append(Int(ty, z3.BitVecVal(v, INT_TYPES[ty][0])))
        paths = ex.run(self.fn, args)
        for o in ex.obligations:
            if not z3.is_false(simp(z3.And(o.pc + [o.bad]))):
                return "PANIC"
        if len(paths) != 1:
            return "PATHS=%d" % len(paths)
        return self.fmt_out(paths[0].ret)

    def native_name(self):
        return self.fn

    def native_args(self, model):
        out = []
        for nm, ty in self.argspec:
            v = self.concrete.get(nm, model.get(nm, 0))
            bits = 1 if ty == "bool" else INT_TYPES[ty][0]
            if ty != "bool" and INT_TYPES[ty][1] and v >= (1 << (bits - 1)):
                v -= 1 << bits
            out.append(int(v))
        return out

    def violates(self, model, out):
        if self.violates_fn:
            return self.violates_fn(self.native_args(model), out)
        return out.startswith("PANIC")


def _fmt_scalar(v):
    if isinstance(v, Int):
        c = conc(simp(v.t))
        return str(c)
    if isinstance(v, Agg):
        parts = []
        for f in v.fields:
            c = conc(simp(f.t))
            bits, signed = INT_TYPES.get(f.ty, (1, False))
            if signed and c >= (1 << (bits - 1)):
                c -= 1 << bits
            parts.append(str(c))
        return " ".join(parts)
    return "?"


def _lemire_cases(lo, hi):
    def f(seed):
        rnd = random.Random(seed + 17)
        cs = []
        for q in (lo - 1, lo, lo + 1, -28, -27, -1, 0, 1, 27, 28, 55, 56, hi - 1, hi, hi + 1):
            for w in (0, 1, 9007199254740993, 0xFFFFFFFFFFFFFFFF, 1 << 63, 123456789012345678):
                cs.append([q & ((1 << 64) - 1), w, rnd.randrange(2)])
        for _ in range(40):
            cs.append([rnd.randrange(lo - 5, hi + 6) & ((1 << 64) - 1), rnd.getrandbits(64) >> rnd.randrange(64), rnd.randrange(2)])
        return cs
    return f


def _signed_cases(f):
    def g(seed):
        out = []
        for c in f(seed):
            q = c[0] - (1 << 64) if c[0] >= (1 << 63) else c[0]
            out.append([q] + c[1:])
        return out
    return g


class _LemireKernel(ScalarKernel):
    """interp() needs unsigned encodings; native driver needs signed decimal."""

    def concrete_cases(self, seed):
        return self.cases_fn(seed)

    def interp(self, P, case):
        c = list(case)
        c[0] = c[0] & ((1 << 64) - 1)
        return super().interp(P, c)


for _f, _lo, _hi in (("f64", -342, 308), ("f32", -65, 38)):
    register(_LemireKernel(
        "lemire_nopanic_" + _f, "compute_float_" + _f, [("q", "i64"), ("w", "u64"), ("lossy", "bool")],
        "lemire::compute_float::<%s>(q, w, lossy): no panic, no overflow, table index in range for every q: i64, w: u64, lossy" % _f,
        cases=_signed_cases(_lemire_cases(_lo, _hi)),
        funcs=["lexical_parse_float::lemire::compute_float::<%s>" % _f, "lemire::compute_product_approx", "lemire::power", "table_lemire::POWER_OF_FIVE_128"],
        timeout_s=120, feas_ms=40))
    register(_LemireKernel(
        "lemire_lossy_rel_" + _f, "lemire_lossy_rel_" + _f, [("q", "i64"), ("w", "u64")],
        "compute_float::<%s>(q,w,lossy=true) equals compute_float(q,w,false) unless the exact algorithm returns the error marker; all q, all 64-bit w" % _f,
        negpost=lambda vs, ret: z3.Not(ret.t),
        cases=lambda seed, lo=_lo, hi=_hi: [c[:2] for c in _signed_cases(_lemire_cases(lo, hi))(seed)],
        violates=lambda args, out: out.strip() != "1",
        funcs=["lexical_parse_float::lemire::compute_float::<%s> (twice, relational)" % _f],
        timeout_s=120, feas_ms=40))


def get(kid):
    """Kernel lookup. `base@var=VAL` specialises an argument to a constant (one table row);
    `base@var<VAL` / `base@var>VAL` restricts it to a (signed) range; the lemire_exact family
    takes `q=..,k=..[,bits=..]`."""
    import copy
    if "@" not in kid:
        return KERNELS[kid]
    base, spec = kid.split("@", 1)
    m = re.fullmatch(r"lemire_exact_(f32|f64)", base)
    if m:
        kv = dict(x.split("=") for x in spec.split(","))
        return LemireExact(m.group(1), int(kv["q"]), int(kv["k"]), int(kv["bits"]) if "bits" in kv else None)
    m = re.fullmatch(r"dragonbox_(f32|f64)", base)
    if m:
        kv = dict((x.split("=") + ["1"])[:2] for x in spec.split(","))
        return Dragonbox(m.group(1), int(kv["E"]), int(kv["free"]) if "free" in kv else None, int(kv.get("hi", "0"), 0), shorter="shorter" in kv)
    k = copy.copy(KERNELS[base])
    k.kid = kid
    m = re.fullmatch(r"(\w+)(=|<|>)(-?\d+)", spec)
    var, op, val = m.group(1), m.group(2), int(m.group(3))
    ty = dict(k.argspec)[var]
    bits = INT_TYPES[ty][0]
    if op == "=":
        k.concrete = dict(k.concrete)
        k.concrete[var] = val & ((1 << bits) - 1)
        k.desc = k.desc + " [row %s=%d]" % (var, val)
        oldcases = k.cases_fn
        idx = [n for n, _ in k.argspec].index(var)
        k.cases_fn = lambda seed: [c[:idx] + [val] + c[idx + 1:] for c in oldcases(seed)][:12]
    else:
        oldpre = k.pre
        cv = z3.BitVecVal(val & ((1 << bits) - 1), bits)
        rel = (lambda v: v < cv) if op == "<" else (lambda v: v > cv)
        k.pre = lambda vs: (oldpre(vs) if oldpre else []) + [rel(vs[var])]
        k.desc = k.desc + " [all %s %s %d]" % (var, op, val)
        oldcases = k.cases_fn
        idx = [n for n, _ in k.argspec].index(var)
        k.cases_fn = lambda seed: [c for c in oldcases(seed) if (c[idx] < val if op == "<" else c[idx] > val)][:12]
    return k


# ------------------------------------------------------------------ Eisel-Lemire exact rounding
FLOAT_PARAMS = {
    # mantissa bits p, exponent bias (so value = (2^p + mant) * 2^(exp - bias - p)), infinite power
    "f64": dict(p=52, bias=1023, inf=2047),
    "f32": dict(p=23, bias=127, inf=255),
}


def _ilog2_rational(num, den):
    """floor(log2(num/den)) for positive integers."""
    e = num.bit_length() - den.bit_length()
    # 2^e <= num/den < 2^(e+1) ?
    if e >= 0:
        if num >= den << e:
            if num >= den << (e + 1):
                return e + 1
            return e
        return e - 1
    if (num << -e) >= den:
        if (num << -e) >= (den << 1):
            return e + 1
        return e
    return e - 1


class LemireExact(ScalarKernel):
    """compute_float::<F>(q, w, false) is the error marker or the correctly rounded float of
    w * 10^q, for one table row q and one leading-zero count k of w (all such w; optionally only
    those with `bits` significant bits). The oracle is exact integer arithmetic (cross-multiplied
    by 5^|q| and powers of two), independent of the algorithm."""

    def __init__(self, f, q, k, bits=None):
        self.f, self.q, self.k, self.bits = f, q, k, bits
        kid = "lemire_exact_%s@q=%d,k=%d%s" % (f, q, k, (",bits=%d" % bits) if bits else "")
        super().__init__(kid, "compute_float_" + f, [("q", "i64"), ("w", "u64"), ("lossy", "bool")],
                         "lemire::compute_float::<%s>(q=%d, w, false) for every w with %d leading zeros%s: error marker or the "
                         "nearest-even float of w*10^q (exact integer oracle)" % (f, q, k, (" and <= %d significant bits" % bits) if bits else ""),
                         concrete={"q": q & ((1 << 64) - 1), "lossy": 0}, feas_ms=40, timeout_s=90,
                         funcs=["lexical_parse_float::lemire::compute_float::<%s>" % f, "table_lemire::POWER_OF_FIVE_128 row %d" % q])
        self.pre = self._pre
        self.negpost = self._negpost
        self.clz_hint = {"w": k}
        self.cases_fn = self._cases

    def _wrange(self):
        return 1 << (63 - self.k), (1 << (64 - self.k)) - 1

    def _pre(self, vs):
        lo, hi = self._wrange()
        w = vs["w"]
        pre = [z3.UGE(w, z3.BitVecVal(lo, 64)), z3.ULE(w, z3.BitVecVal(hi, 64))]
        if self.bits and 64 - self.k > self.bits:
            low = 64 - self.k - self.bits
            pre.append(z3.Extract(low - 1, 0, w) == 0)
        return pre

    def _cases(self, seed):
        rnd = random.Random(seed * 31 + self.q * 7 + self.k)
        lo, hi = self._wrange()
        cs = {lo, hi, lo + 1, (lo + hi) // 2}
        for _ in range(8):
            cs.add(rnd.randrange(lo, hi + 1))
        out = []
        for w in sorted(cs):
            if self.bits and 64 - self.k > self.bits:
                low = 64 - self.k - self.bits
                w = (w >> low) << low
            out.append([self.q, w, 0])
        return out

    def _negpost(self, vs, ret):
        """NOT( error marker  OR  (mant, exp) is the nearest-even float of w*10^q )"""
        P = FLOAT_PARAMS[self.f]
        p, bias, INF = P["p"], P["bias"], P["inf"]
        q = self.q
        w = vs["w"]
        mant, exp = ret.fields[0].t, ret.fields[1].t
        W = 64 + 64 + abs(q) * 3 + 1200 if abs(q) > 60 else 400 + abs(q) * 3
        # generous fixed width for the integer comparisons
        W = max(W, 2300 if self.f == "f64" else 700)
        zw = z3.ZeroExt(W - 64, w)
        zm = z3.ZeroExt(W - 64, mant)
        five = 5 ** abs(q)
        # V = w * 10^q = w * A / B with A, B positive integers
        if q >= 0:
            A, B = five << q, 1
        else:
            A, B = 1, five << (-q)
        wlo, whi = self._wrange()
        # candidate normal exponents for this (q, k)
        e_lo = _ilog2_rational(wlo * A, B)
        e_hi = _ilog2_rational(whi * A, B) + 1   # +1: rounding may carry to the next binade
        emin = 1 - bias                           # exponent of the smallest normal
        ok_cases = []

        def C(x):
            return z3.BitVecVal(x, W)

        def within(mant_term_scaled, ulp_num, ulp_den, mant_even, lower_half):
            """| V - R | <= ulp/2 with ties to even, where R = mant_term_scaled * (ulp_num/ulp_den).
            All compared after multiplying by 2 * B * ulp_den:  2*V*.. = 2*w*A*ulp_den ; 2*R*.. = 2*R_int*ulp_num*B ;
            ulp*.. = ulp_num*B."""
            lhs = zw * C(2 * A * ulp_den)                  # 2V scaled
            rhs = mant_term_scaled * C(2 * ulp_num * B)    # 2R scaled
            u = C(ulp_num * B)                             # ulp scaled
            # 2V - 2R in [-ulp, +ulp]
            le_hi = z3.ULE(lhs, rhs + u)
            ge_lo = z3.ULE(rhs, lhs + u)
            tie_hi = lhs == rhs + u
            tie_lo = rhs == lhs + u
            conds = [le_hi, ge_lo, z3.Implies(tie_hi, mant_even), z3.Implies(tie_lo, mant_even)]
            if lower_half is not None:
                # at a binade boundary the gap below is half as wide: 2V - 2R >= -ulp/2  <=> 2*rhs <= 2*lhs + u
                conds.append(z3.Implies(lower_half, z3.ULE(rhs * 2, lhs * 2 + u)))
            return z3.And(conds)

        mant_even = z3.Extract(0, 0, mant) == 0
        hidden = C(1 << p)
        for E in range(max(e_lo, emin), e_hi + 1):
            eb = E + bias
            if eb >= INF:
                continue
            # normal: R = (2^p + mant) * 2^(E - p)
            s = E - p
            un, ud = (1 << s, 1) if s >= 0 else (1, 1 << (-s))
            lower_half = (z3.And(mant == 0, z3.BoolVal(eb > 1)))
            ok_cases.append(z3.And(exp == z3.BitVecVal(eb, 32), z3.ULT(mant, z3.BitVecVal(1 << p, 64)),
                                   within(hidden + zm, un, ud, mant_even, lower_half)))
        if e_lo < emin:
            # subnormal / zero: R = mant * 2^(emin - p), exp == 0 ; mant == 2^p would be the smallest normal
            s = emin - p
            un, ud = (1 << s, 1) if s >= 0 else (1, 1 << (-s))
            ok_cases.append(z3.And(exp == 0, z3.ULT(mant, z3.BitVecVal(1 << p, 64)), within(zm, un, ud, mant_even, None)))
            # rounding up out of the subnormal range gives the smallest normal: handled by the normal case E=emin (mant=0)
        # overflow: V >= (2^(p+1) - 1/2) * 2^(emax - p)  => infinity
        emax = INF - 1 - bias
        # 2*V*B >= (2^(p+2) - 1) * 2^(emax - p) * B
        thr = ((1 << (p + 2)) - 1) << (emax - p)
        if e_hi >= emax:
            ok_cases.append(z3.And(exp == z3.BitVecVal(INF, 32), mant == 0, z3.UGE(zw * C(2 * A), C(thr * B))))
            # and finite results must be below the threshold
            below = z3.ULT(zw * C(2 * A), C(thr * B))
            ok_cases = [z3.And(c, below) if i < len(ok_cases) - 1 else c for i, c in enumerate(ok_cases)]
        is_error = exp < 0
        return z3.Not(z3.Or([is_error] + ok_cases))

    def violates(self, model, out):
        # replay: recompute the correctly rounded value with Python big integers
        from fractions import Fraction
        w = model.get("w", 0)
        try:
            m, e = [int(x) for x in out.split()]
        except Exception:
            return True
        if e < 0:
            return False
        P = FLOAT_PARAMS[self.f]
        want = _round_nearest_even(Fraction(w) * Fraction(10) ** self.q, P)
        return (m, e) != want


def _round_nearest_even(v, P):
    from fractions import Fraction
    p, bias, INF = P["p"], P["bias"], P["inf"]
    if v == 0:
        return (0, 0)
    E = _ilog2_rational(v.numerator, v.denominator)
    emin = 1 - bias
    if E < emin:
        E = emin
        sub = True
    else:
        sub = False
    ulp = Fraction(2) ** (E - p)
    qv = v / ulp
    fl = qv.numerator // qv.denominator
    rem = qv - fl
    if rem > Fraction(1, 2) or (rem == Fraction(1, 2) and fl % 2 == 1):
        fl += 1
    if sub:
        if fl >= (1 << p):
            return (fl - (1 << p), 1)
        return (fl, 0)
    if fl >= (1 << (p + 1)):
        fl >>= 1
        E += 1
    eb = E + bias
    if eb >= INF:
        return (0, INF)
    return (fl - (1 << p), eb)


# ------------------------------------------------------------------ Dragonbox (float -> shortest decimal)
def _ilog10_rational(num, den):
    """floor(log10(num/den))"""
    import math
    # estimate then fix
    e = int((num.bit_length() - den.bit_length()) * 0.30103) - 2
    while True:
        # 10^(e+1) <= num/den ?
        if e + 1 >= 0:
            ok = num >= den * 10 ** (e + 1)
        else:
            ok = num * 10 ** (-(e + 1)) >= den
        if ok:
            e += 1
        else:
            break
    return e


class _Lazy(dict):
    """DBX_CONTRACTS is defined further down in this module."""

    def items(self):
        return DBX_CONTRACTS.items()

    def __bool__(self):
        return True


DBX_CONTRACTS_LAZY = _Lazy()


class Dragonbox(ScalarKernel):
    """compute_nearest_normal / compute_nearest_shorter for one binade (biased exponent E): the
    returned decimal (D, k) (i) lies in the float's rounding interval (round-trips), (ii) no
    shorter decimal lies in the interval, (iii) no neighbour D+-1 at the same length is strictly
    closer, (iv) D has no trailing zero. Mantissa field: `free` low bits symbolic, the high
    bits fixed to `hi` (cube bound); free = p means the whole binade."""

    def __init__(self, f, E, free=None, hi=0, shorter=False):
        P = FLOAT_PARAMS[f]
        self.f, self.E, self.hi, self.shorter = f, E, hi, shorter
        p = P["p"]
        self.free = p if free is None else free
        bits = 32 if f == "f32" else 64
        fn = ("dbx_shorter_" if shorter else "dbx_normal_") + f
        kid = "dragonbox_%s@E=%d%s" % (f, E, ",shorter" if shorter else ",free=%d,hi=%d" % (self.free, hi))
        super().__init__(kid, fn, [("bits", "u%d" % bits)],
                         "Dragonbox %s::<%s>, biased exponent %d%s: round-trip, shortest, closest, no trailing zero (exact integer oracle)"
                         % ("compute_nearest_shorter" if shorter else "compute_nearest_normal", f, E,
                            "" if shorter else ", low %d mantissa bits symbolic, high bits = %#x" % (self.free, hi)),
                         feas_ms=60, timeout_s=150, unwind=4, intrinsics=DBX_CONTRACTS_LAZY,
                         funcs=["lexical_write_float::algorithm::" + ("compute_nearest_shorter" if shorter else "compute_nearest_normal") + "::<%s>" % f,
                                "DragonboxFloat::{compute_mul, compute_mul_parity, compute_delta, check_div_pow10, divide_by_pow10, remove_trailing_zeros}",
                                "table_dragonbox cache row for this binade"])
        self.pre = self._pre
        self.negpost = self._negpost
        self.cases_fn = self._cases
        self.nbits = bits
        # wide rational comparisons: bit-blasting first (the integer encoding rarely finishes here)
        self.prop_strategies = (("cvc5", 40), ("z3-new", 40), ("cvc5-int", 30), ("cvc5", None), ("z3-new", None))
        if shorter:
            # the binade's single power-of-two input: a constant, so MIR execution and the oracle
            # both fold to constants (exhaustive over the 254 / 2046 such inputs when swept)
            self.concrete = {"bits": E << p}
            self.pre = None
            self.prop_strategies = None     # constants only: the integer encoding answers at once

    def _mrange(self):
        p = FLOAT_PARAMS[self.f]["p"]
        if self.shorter:
            return 0, 0
        lo = self.hi << self.free
        hi = lo | ((1 << self.free) - 1)
        return max(lo, 1), hi

    def _pre(self, vs):
        p = FLOAT_PARAMS[self.f]["p"]
        b = vs["bits"]
        n = self.nbits
        pre = [z3.Extract(n - 1, p, b) == z3.BitVecVal(self.E, n - p)]
        if self.shorter:
            pre.append(z3.Extract(p - 1, 0, b) == 0)
        else:
            if self.free < p:
                pre.append(z3.Extract(p - 1, self.free, b) == z3.BitVecVal(self.hi, p - self.free))
            pre.append(z3.Extract(p - 1, 0, b) != 0)
        return pre

    def _cases(self, seed):
        rnd = random.Random(seed * 13 + self.E)
        lo, hi = self._mrange()
        p = FLOAT_PARAMS[self.f]["p"]
        ms = {lo, hi, (lo + hi) // 2}
        for _ in range(6):
            ms.add(rnd.randrange(lo, hi + 1))
        return [[(self.E << p) | m] for m in sorted(ms)]

    def _negpost(self, vs, ret):
        P = FLOAT_PARAMS[self.f]
        p, bias = P["p"], P["bias"]
        E = self.E
        b = vs["bits"]
        m = z3.Extract(p - 1, 0, b)
        D, k = ret.fields[0].t, ret.fields[1].t
        if E == 0:
            e2 = 1 - bias - p
            hidden = 0
        else:
            e2 = E - bias - p
            hidden = 1 << p
        mlo, mhi = self._mrange()
        Mlo, Mhi = hidden + mlo, hidden + mhi
        W = 1400 if self.f == "f64" else 420
        zM = z3.ZeroExt(W - p, m) + z3.BitVecVal(hidden, W)
        zD = z3.ZeroExt(W - 64, D)
        asym = self.shorter and E > 1
        # value range of the binade slice -> candidate decimal exponents k
        from fractions import Fraction
        vmin = Fraction(Mlo) * Fraction(2) ** e2
        vmax = Fraction(Mhi + 1) * Fraction(2) ** e2
        maxdig = 17 if self.f == "f64" else 9
        k_hi = _ilog10_rational(vmax.numerator, vmax.denominator) + 1
        k_lo = _ilog10_rational(vmin.numerator, vmin.denominator) - maxdig
        C = lambda x: z3.BitVecVal(x, W)
        M_even = z3.Extract(0, 0, m) == 0
        cases = []
        for kk in range(k_lo, k_hi + 1):
            # common scale: multiply every quantity by 2^a * 10^b with a = max(0, 2 - e2), b = max(0, -kk)
            a = max(0, 2 - e2)
            bb = max(0, -kk)
            scale2 = lambda e: 1 << (e + a)                # 2^e scaled (e >= -2 suffices: e2-2 .. )
            ten_k = 10 ** (kk + bb) << a                   # 10^kk scaled
            ten_k1 = 10 ** (kk + 1 + bb) << a              # 10^(kk+1) scaled
            sc = 10 ** bb
            # interval endpoints (scaled): low = (2M-1)*2^(e2-1) or (4M-1)*2^(e2-2), high = (2M+1)*2^(e2-1), v = M*2^e2
            if asym:
                low = (zM * 4 - 1) * C(scale2(e2 - 2) * sc)
            else:
                low = (zM * 2 - 1) * C(scale2(e2 - 1) * sc)
            high = (zM * 2 + 1) * C(scale2(e2 - 1) * sc)
            v = zM * C(scale2(e2) * sc)
            x = zD * C(ten_k)

            def inside(t):
                return z3.And(z3.Or(z3.ULT(low, t), z3.And(M_even, low == t)), z3.Or(z3.ULT(t, high), z3.And(M_even, t == high)))

            def dist_lt(t1, t2):
                # |t1 - v| < |t2 - v|
                d1 = z3.If(z3.UGE(t1, v), t1 - v, v - t1)
                d2 = z3.If(z3.UGE(t2, v), t2 - v, v - t2)
                return z3.ULT(d1, d2)

            rt = inside(x)
            # (ii) a shorter candidate: some multiple of 10^(kk+1) inside the interval
            Dp = z3.BitVec("Dshort", 64)
            y = z3.ZeroExt(W - 64, Dp) * C(ten_k1)
            shorter_exists = z3.And(z3.ULT(Dp, z3.BitVecVal(10 ** 18, 64)), inside(y))
            # (iii) a strictly closer neighbour of the same length
            xm, xp = x - C(ten_k), x + C(ten_k)
            closer = z3.Or(z3.And(z3.UGE(zD, 1), inside(xm), dist_lt(xm, x)), z3.And(inside(xp), dist_lt(xp, x)))
            good = z3.And(rt, z3.Not(shorter_exists), z3.Not(closer), z3.URem(D, z3.BitVecVal(10, 64)) != 0)
            cases.append(z3.And(k == z3.BitVecVal(kk & 0xffffffff, 32), good))
        return z3.Not(z3.Or(cases))

    def violates(self, model, out):
        from fractions import Fraction
        P = FLOAT_PARAMS[self.f]
        p, bias = P["p"], P["bias"]
        bits = model.get("bits", 0)
        E = (bits >> p) & ((1 << (self.nbits - 1 - p)) - 1)
        m = bits & ((1 << p) - 1)
        try:
            D, k = [int(x) for x in out.split()]
        except Exception:
            return True
        if E == 0:
            M, e2 = m, 1 - bias - p
        else:
            M, e2 = (1 << p) + m, E - bias - p
        two = Fraction(2)
        v = M * two ** e2
        high = (2 * M + 1) * two ** (e2 - 1)
        low = (4 * M - 1) * two ** (e2 - 2) if (m == 0 and E > 1) else (2 * M - 1) * two ** (e2 - 1)
        even = M % 2 == 0

        def inside(t):
            return (low < t or (even and low == t)) and (t < high or (even and t == high))
        x = D * Fraction(10) ** k
        if not inside(x) or D % 10 == 0:
            return True
        # shorter candidate?
        step = Fraction(10) ** (k + 1)
        import math
        c = math.ceil(low / step)
        for cand in (c - 1, c, c + 1):
            if cand >= 0 and inside(cand * step):
                return True
        for nb in (D - 1, D + 1):
            t = nb * Fraction(10) ** k
            if nb >= 0 and inside(t) and abs(t - v) < abs(x - v):
                return True
        return False


# ------------------------------------------------------------------ trailing-zero removal: contract + its proof
def _rtz_contract(maxpow):
    """Executor intrinsic standing for `remove_trailing_zeros(m)`: fresh (n, s) with
    m == n * 10^s, n % 10 != 0 (for m != 0). Justified by the rtz_* kernels."""
    def f(ex, st, fr, callee, args):
        from mirexec import Agg
        m = args[0]
        ex.fresh += 1
        n = z3.BitVec("rtz_n%d" % ex.fresh, 64)
        s = z3.BitVec("rtz_s%d" % ex.fresh, 32)
        cases = [z3.And(s == j, m.t == n * z3.BitVecVal(10 ** j, 64), z3.ULE(n, z3.BitVecVal((2 ** 64 - 1) // 10 ** j, 64))) for j in range(maxpow + 1)]
        ex.cur.defs.append(z3.Implies(m.t != 0, z3.And(z3.Or(cases), z3.URem(n, z3.BitVecVal(10, 64)) != 0)))
        return Agg([Int("u64", n), Int("i32", s)])
    return f


def _ptz_contract(maxpow):
    rtz = _rtz_contract(maxpow)

    def f(ex, st, fr, callee, args):
        from mirexec import Agg
        r = rtz(ex, st, fr, callee, args[:1])
        return Agg([r.fields[0], Int("i32", args[1].t + r.fields[1].t)])
    return f


DBX_CONTRACTS = {
    r"<f32 as lexical_write_float::algorithm::DragonboxFloat>::process_trailing_zeros": _ptz_contract(9),
    r"<f64 as lexical_write_float::algorithm::DragonboxFloat>::process_trailing_zeros": _ptz_contract(19),
    r"<f32 as lexical_write_float::algorithm::DragonboxFloat>::remove_trailing_zeros": _rtz_contract(9),
    r"<f64 as lexical_write_float::algorithm::DragonboxFloat>::remove_trailing_zeros": _rtz_contract(19),
}


def _rtz_negpost(maxpow):
    def f(vs, ret):
        m = vs["m"]
        n, s = ret.fields[0].t, ret.fields[1].t
        cases = [z3.And(s == j, z3.ZeroExt(64, m) == z3.ZeroExt(64, n) * z3.BitVecVal(10 ** j, 128)) for j in range(maxpow + 1)]
        return z3.Not(z3.And(z3.Or(cases), z3.URem(n, z3.BitVecVal(10, 64)) != 0))
    return f


def _rtz_cases(hi):
    def f(seed):
        rnd = random.Random(seed + 5)
        cs = [1, 10, 100, 1000, 12300, 99999, 100000, 7 * 10 ** 8, hi, hi - 1, 10 ** (len(str(hi)) - 1)]
        cs += [rnd.randrange(1, hi) * 10 ** rnd.randrange(0, 4) % hi + 1 for _ in range(12)]
        return [[c] for c in cs]
    return f


register(ScalarKernel("rtz_f32", "tm::tm__f32__DragonboxFloat__remove_trailing_zeros", [("m", "u64")],
                      "<f32 as DragonboxFloat>::remove_trailing_zeros(m) == (n, s) with m == n*10^s and n % 10 != 0, for every 1 <= m < 2^24",
                      pre=lambda vs: [vs["m"] != 0, z3.ULT(vs["m"], z3.BitVecVal(2 ** 24, 64))], negpost=_rtz_negpost(9),
                      cases=_rtz_cases(2 ** 24 - 1), violates=lambda a, o: False, unwind=8, feas_ms=100, timeout_s=120,
                      funcs=["<f32 as DragonboxFloat>::remove_trailing_zeros"]))
register(ScalarKernel("rtz_f64", "tm::tm__f64__DragonboxFloat__remove_trailing_zeros", [("m", "u64")],
                      "<f64 as DragonboxFloat>::remove_trailing_zeros(m) == (n, s) with m == n*10^s and n % 10 != 0, for every 1 <= m < 2^24",
                      pre=lambda vs: [vs["m"] != 0, z3.ULT(vs["m"], z3.BitVecVal(2 ** 24, 64))], negpost=_rtz_negpost(19),
                      cases=_rtz_cases(2 ** 24 - 1), violates=lambda a, o: False, unwind=12, feas_ms=100, timeout_s=120,
                      funcs=["<f64 as DragonboxFloat>::remove_trailing_zeros"]))


# ------------------------------------------------------------------ lemire() wrapper (truncated digits second pass)
def _lemire_wrap_cases(lo, hi):
    def f(seed):
        rnd = random.Random(seed + 3)
        cs = []
        for q in (lo, -27, 0, 5, 27, 55, hi):
            for w in (1, 9007199254740993, 0xFFFFFFFFFFFFFFFF, 1 << 63, 9007199254740993000):
                for md in (0, 1):
                    for ly in (0, 1):
                        if md and not (10 ** 18 <= w < 10 ** 19):
                            continue
                        cs.append([w, q, md, ly])
        return cs[:40]
    return f


for _f, _lo, _hi in (("f64", -342, 308), ("f32", -65, 38)):
    register(ScalarKernel(
        "lemire_wrap_" + _f, "lemire_" + _f, [("mantissa", "u64"), ("exponent", "i64"), ("many_digits", "bool"), ("lossy", "bool")],
        "lemire::lemire::<%s>(num, lossy): with lossy the result is never the error marker (exp >= 0); without truncated digits it equals compute_float; no panic" % _f,
        # contract of parse_number: a truncated mantissa holds exactly 19 significant decimal digits
        pre=lambda vs: [z3.Implies(vs["many_digits"], z3.And(z3.UGE(vs["mantissa"], z3.BitVecVal(10 ** 18, 64)), z3.ULT(vs["mantissa"], z3.BitVecVal(10 ** 19, 64))))],
        negpost=lambda vs, ret: z3.And(vs["lossy"], ret.fields[1].t < 0),
        cases=_lemire_wrap_cases(_lo, _hi),
        violates=lambda args, out: int(out.split()[1]) < 0 and args[3] != 0,
        funcs=["lexical_parse_float::lemire::lemire::<%s>" % _f], timeout_s=120, feas_ms=40))


# ------------------------------------------------------------------ slow-path digit cap (limits::f{32,64}_max_digits)
def halfway_digits(b, p, emin):
    """Exact maximum number of significant base-b digits of a halfway point (2m+1)*2^(e-1),
    m < 2^p, e >= emin (the subnormal exponent), for an even radix b = 2^k*c, c odd > 1."""
    k, c = 0, b
    while c % 2 == 0:
        c //= 2
        k += 1
    if c == 1 or k == 0:
        return None
    odd = (1 << (p + 1)) - 1
    best = 0
    for n in range(1, 2 - emin):
        j = -(-n // k)
        N = odd * c ** j * 2 ** (k * j - n)     # (odd * 2^-n) == N / b^j, N not divisible by b
        d = 0
        while N:
            N //= b
            d += 1
        best = max(best, d)
    return best


def _max_digits_kernel(f, p, emin):
    need = {b: halfway_digits(b, p, emin) for b in range(2, 37)}
    none = (1 << 64) - 1

    def negpost(vs, ret):
        r, v = vs["radix"], ret.t
        bad = []
        for b in range(2, 37):
            if need[b] is not None:
                bad.append(z3.And(r == b, z3.Or(v == none, z3.ULT(v, z3.BitVecVal(need[b], 64)))))
            elif b % 2 == 1:
                bad.append(z3.And(r == b, v != none))
        return z3.Or(bad)

    def violates(args, out):
        b, v = args[0], int(out)
        if need.get(b) is not None:
            return v == none or v < need[b]
        return b % 2 == 1 and 2 <= b <= 36 and v != none

    return ScalarKernel(
        "max_digits_" + f, "max_digits_" + f, [("radix", "u32")],
        "limits::%s_max_digits(radix): for every even non-power-of-two radix the cap is at least the exact maximum number of significant digits of a halfway "
        "point (computed with big integers), for every odd radix it is None (byte-wise comparison instead of truncation)" % f,
        pre=lambda vs: [z3.UGE(vs["radix"], z3.BitVecVal(2, 32)), z3.ULE(vs["radix"], z3.BitVecVal(36, 32))],
        negpost=negpost, cases=lambda seed: [[b] for b in range(2, 37)], violates=violates,
        funcs=["lexical_parse_float::limits::%s_max_digits" % f], timeout_s=60)


register(_max_digits_kernel("f64", 53, -1074))
register(_max_digits_kernel("f32", 24, -149))
