"""Runner self-test (not a property): one passing, one failing, one vacuous, one unwinding."""
from vlib.driver import KGroup


def plan(tier, seed):
    hs = [dict(name="smoke::" + n, desc=n) for n in ["smoke_pass", "smoke_fail", "smoke_vacuous", "smoke_unwind"]]
    return {"kani": [KGroup("D", hs, timeout=60, jobs=4)]}
