"""C13: digit separators never change a value and are accepted only where enabled."""
from ._util import H, KGroup, pick

ALL15 = ["i", "l", "t", "il", "it", "lt", "ilt", "ic", "lc", "tc", "ilc", "itc", "ltc", "iltc"]


def plan(tier, seed):
    D = "metamorphic: accepted with separators => accepted without, same value; separators only in enabled positions; enabled positions never cause rejection; separator-free inputs treated identically"
    if tier == "quick":
        fl = [H("c13::sep_f64_%s_4" % c, D, "alphabet {+-019._ex}, len<=4") for c in ("t", "i", "l", "iltc")]
        ints = [H("c13::sep_u32_t_5", D + " (integers)", "len<=5"), H("c13::sep_i32_iltc_5", D + " (integers)", "len<=5")]
        ints += [H("c13::sep_i32_%s_4" % c, D + " (integers)", "alphabet {+-019_x}, len<=4") for c in ALL15]
        groups = [KGroup("F", fl, timeout=800, jobs=4, mem_gb=14, stubbing=True, label="floats"), KGroup("F", ints, timeout=800, jobs=8, mem_gb=14, label="integers, all 14 flag combinations")]
    else:
        # len 5/6 variants exist in c13.rs but ran out of memory (14 GB) or time: not part of the check
        # sep_f64_ic_4 is killed at the 14 GB limit: the one combination not decided for floats
        fl = [H("c13::sep_f64_%s_4" % c, D, "len<=4") for c in ALL15 if c != "ic"] + [H("c13::sep_f32_iltc_4", D, "len<=4")]
        ints = [H("c13::sep_%s" % n, D + " (integers)", "len<=5") for n in ("u32_i_5", "u32_l_5", "u32_t_5", "i32_iltc_5", "u8_ilt_5", "i64_itc_5", "u64_lc_5")]
        ints += [H("c13::sep_i32_%s_4" % c, D + " (integers)", "len<=4") for c in ALL15]
        groups = [KGroup("F", fl, timeout=7200, jobs=5, mem_gb=14, stubbing=True, label="floats, 13 flag combinations"), KGroup("F", ints, timeout=7200, jobs=7, mem_gb=14, label="integers, all 14 flag combinations")]
    return {
        "kani": groups,
        "functions_encoded": ["lexical_util::skip (all peek_* variants selected by the format)", "lexical_parse_float::parse::parse_number", "lexical_parse_integer::algorithm"],
        "bounds": ["uniform (same flags for integer/fraction/exponent) internal/leading/trailing/consecutive combinations, separator '_', decimal; strings over the alphabet {+ - 0 1 9 . _ e x} up to the stated length, complete parser"],
        "outside_claim": ["mixed per-component separator formats", "inputs longer than 4 bytes (floats) / 5 bytes (integers) - in particular > 19-digit inputs with separators (big-integer re-parse) and the 8-digit fast path", "special_digit_separator", "radix 16", "partial parser"],
        "stubs_and_assumes": ["numeric back end stubbed (value compared through the digit decomposition)"],
        "assumptions": ["separator classification as documented in docs/DigitSeparators.md (leading/trailing/internal by neighbouring control characters, per component)"],
    }
