"""C08: what lexical writes, lexical parses back (integers; floats: see outside_claim)."""
from ._util import H, KGroup


def plan(tier, seed):
    D = "parse_with_options(write_with_options(v)) == Ok(v), partial parser consumes everything"
    base = [H("c08::rt_%s" % t, D, "all values") for t in ("u8", "i8")] + [H("c08::rtc_%s" % t, D + " (cubes)", "0, powers of ten, MIN, MAX +- 255") for t in ("u32", "i32")]
    if tier == "thorough":
        base += [H("c08::rt_%s" % t, D, "all values") for t in ("u16", "i16")] + [H("c08::rtc_%s" % t, D + " (cubes)", "") for t in ("u64", "i64")]
    groups = [KGroup("D", base, timeout=1500, jobs=8, mem_gb=10, label="decimal")]
    rad = ["c08::radix::rt_u8_r2", "c08::radix::rt_i8_r16", "c08::radix::rt_u8_r3", "c08::radix::rt_i8_r7", "c08::fmt::rt_i8_required_sign"]
    if tier == "thorough":
        rad += ["c08::radix::rt_u16_r32", "c08::radix::rt_i16_r16", "c08::radix::rt_i16_r36", "c08::fmt::rt_i16_no_positive_sign"]
    groups.append(KGroup("RF", [H(n, D, "all values") for n in rad], timeout=1500, jobs=8, mem_gb=10, label="radix+format"))
    return {
        "kani": groups,
        "functions_encoded": ["lexical_core::{write_with_options, parse_with_options, parse_partial_with_options} (integers)"],
        "bounds": ["every value of 8-bit types (16-bit in thorough) under decimal, radix 2/3/7/16 and the required-sign format; cubes for 32-bit (64-bit in thorough) types"],
        "outside_claim": ["floats: acceptance of the formatting layer's output by the parser is not composed yet (C14 decodes the output with its own recogniser; C12/C10 cover the parser)",
                          "bit-for-bit float equality (= C01 after C02)", "128-bit integers; other radices"],
        "assumptions": [],
    }
