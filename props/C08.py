"""C08: what lexical writes, lexical parses back (integers; floats: see outside_claim)."""
from ._util import H, KGroup


def plan(tier, seed):
    D = "parse_with_options(write_with_options(v)) == Ok(v), partial parser consumes everything"
    base = [H("c08::rt_u8", D, "all values"), H("c08::rtc_u32", D + " (cubes)", "0, powers of ten, MAX +- 255")]
    if tier == "thorough":
        base += [H("c08::rt_i8", D, "all values")] + [H("c08::rtc_%s" % t, D + " (cubes)", "") for t in ("i32", "i64")]
    groups = [KGroup("RF", base, timeout=800 if tier == "quick" else 7200, jobs=8, mem_gb=12, label="decimal (radix+format build; the same harness needs > 800 s without the format feature)")]
    rad = ["c08::radix::rt_u8_r2", "c08::radix::rt_u8_r3", "c08::radix::rt_i8_r16", "c08::fmt::rt_i8_required_sign"]
    if tier == "thorough":
        rad += ["c08::radix::rt_i8_r7"]
    groups.append(KGroup("RF", [H(n, D, "all values") for n in rad], timeout=800 if tier == "quick" else 7200, jobs=8, mem_gb=12, label="radix+format"))
    return {
        "kani": groups,
        "functions_encoded": ["lexical_core::{write_with_options, parse_with_options, parse_partial_with_options} (integers)"],
        "bounds": ["every u8 value in decimal and radix 2/3, every i8 value in radix 16 and under the required-sign format, u32 cubes (quick); both 8-bit types, radix 7 and i32/i64 cubes in addition (thorough; the all-values 16-bit harnesses did not finish in 25 min and are not part of the check)"],
        "outside_claim": ["floats: acceptance of the formatting layer's output by the parser is not composed yet (C14 decodes the output with its own recogniser; C12/C10 cover the parser)",
                          "bit-for-bit float equality (= C01 after C02)", "128-bit integers; other radices"],
        "assumptions": [],
    }
