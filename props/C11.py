"""C11: partial and complete parsers agree."""
from ._util import H, KGroup, INT_TYPES


def plan(tier, seed):
    groups = []
    if tier == "quick":
        ints = [H("c04::r1_%s_3" % t, "complete Ok(v) <=> partial Ok((v,len)); partial Ok((v,n)),n>0 => complete(s[..n])==Ok(v)", "arbitrary bytes len<=3") for t in ("u8", "i8", "i32", "u64")]
        groups.append(KGroup("D", ints, timeout=900, jobs=8, mem_gb=14, label="integers"))
        fl = [H("pf::p2_f32_4", "float partial/complete relation, numerics stubbed deterministically", "arbitrary bytes len<=4")]
        groups.append(KGroup("D", fl, timeout=850, jobs=2, mem_gb=14, stubbing=True, label="floats"))
        groups.append(KGroup("F", [H("c13::seprel_f64_t_3", "same relation under a trailing-separator format", "alphabet {+-019._ex}, len<=3")], timeout=800, jobs=1, mem_gb=14, stubbing=True, label="floats, separator format"))
    else:
        # only harness sizes that were measured to completion (r1 at 4 bytes for the wide types, p2 at 5 bytes and
        # the iltc separator format at 4 bytes exceed the memory limit or were never measured: in no tier)
        ints = [H("c04::r1_%s_3" % t, "relation", "arbitrary bytes len<=3") for t in ("u8", "i8", "i32", "u64")]
        groups.append(KGroup("D", ints, timeout=7200, jobs=10, mem_gb=14, label="integers"))
        fl = [H("pf::p2_f32_4", "relation", "len<=4")]
        groups.append(KGroup("D", fl, timeout=7200, jobs=2, mem_gb=14, stubbing=True, label="floats"))
        seps = [H("c13::seprel_f64_t_3", "same relation under a trailing-separator format", "alphabet {+-019._ex}, len<=3"),
                H("c13::seprel_f64_t_4", "same relation under a trailing-separator format", "alphabet {+-019._ex}, len<=4"),
                H("c13::seprel_f64_t_4s", "same relation under a trailing-separator format", "alphabet {1._ex}, len<=4")]
        groups.append(KGroup("F", seps, timeout=7200, jobs=3, mem_gb=14, stubbing=True, label="floats, separator format"))
    return {
        "kani": groups,
        "functions_encoded": ["lexical_core::{parse,parse_partial} (integers, floats)"],
        "bounds": ["arbitrary byte strings up to the stated length, STANDARD format, default options"],
        "outside_claim": ["separator formats beyond the listed uniform ones, base suffixes", "custom punctuation options", "longer inputs"],
        "stubs_and_assumes": ["float harnesses stub the numeric back end by a deterministic function of the parsed Number, so equal decompositions give equal bits"],
        "assumptions": [],
    }
