"""C05: non-decimal (power-of-two) radix string -> float is correctly rounded."""
from ._util import H, KGroup


def plan(tier, seed):
    q = ["bin_f64_r16", "bin_f32_r16", "bin_f64_r2", "bin_f64_r16_b2", "bin_f64_r8", "bin_f32_r16_b2"]
    t = q + ["bin_f64_r4", "bin_f64_r32", "bin_f32_r2", "bin_f32_r8", "bin_f64_r4_b2", "bin_f64_r8_b2", "bin_f64_r32_b2", "bin_f64_r16_b4"]
    names = q if tier == "quick" else t
    hs = [H("c05::" + n, "binary::binary on a symbolic Number vs shift-based nearest-even oracle (lossy symbolic)", "all 64-bit mantissas, exponents covering zero/subnormal/normal/inf") for n in names]
    hx = [H("c05::hexparse_f64", "public API on hex strings d{1,3}^[-]ddd vs oracle", "mantissa 1..3 hex digits, exponent 3 hex digits"),
          H("c05::hexparse_f32", "", "mantissa 1..3 hex digits, exponent 3 hex digits")]
    groups = [KGroup("P", hs, timeout=900, jobs=8, mem_gb=14, label="binary() kernel")]
    if tier == "thorough":
        pass   # the end-to-end hex-string harnesses (c05::hexparse_*) exist but were never measured to completion: not part of the check
        groups.append(KGroup("R", hs[:4], timeout=900, jobs=4, mem_gb=14, label="binary() kernel, radix feature"))
    return {
        "kani": groups,
        "smt": {"features": (), "kernels": ["max_digits_f64", "max_digits_f32"], "workers": 2},
        "functions_encoded": ["lexical_parse_float::binary::binary", "shared::{calculate_power2,calculate_shift,round,round_nearest_tie_even}", "float::extended_to_float",
                              "lexical_parse_float::limits::{f32_max_digits,f64_max_digits} (MIR -> SMT: digit cap of the slow path >= exact halfway-point digit count, every radix)"],
        "bounds": ["slow-path digit cap: every radix 2..36 (symbolic), against the exact big-integer maximum of significant digits of a halfway point", "all 64-bit mantissas x exponent ranges reaching zero, subnormal, normal and infinite results, per (radix, exponent base) format and float type"],
        "outside_claim": ["generic radices 3,5,6,7,9..36 (Bellerophon + big-integer slow path: not encodable within reach)", "slow_binary digit loops beyond the end-to-end harness",
                          "the moderate->slow path hand-over for truncated mantissas (error marker) is only checked to be requested legally"],
        "assumptions": ["Number{mantissa,exponent,many_digits} as produced by parse_number (exponent in units of the exponent base)"],
    }
