"""C15: special values and signed zero."""
from ._util import H, KGroup


def plan(tier, seed):
    n = 4 if tier == "quick" else 5
    wr = [H("c15::w_special_f32", "write NaN/inf/0 (all payloads/signs), default options", "all special bit patterns"),
          H("c15::w_special_f64", "", "all special bit patterns"),
          H("c15::w_special_custom_f32", "custom nan/inf strings (symbolic letters)", "string length 1..4"),
          H("c15::w_special_custom_f64", "", "string length 1..4"),
          H("c15::w_nan_disabled_f32", "nan_string=None => panic (should_panic)", ""),
          H("c15::w_inf_disabled_f64", "inf_string=None => panic (should_panic)", "")]
    pr = [H("pf::p1_%s_%s_%d" % (f, m, n), "special strings accepted exactly when they match (case-insensitively); numeric input never NaN; sign of inf", "arbitrary bytes len<=%d" % n)
          for f in ("f32", "f64") for m in ("partial", "complete")]
    groups = [KGroup("D", wr, timeout=900, jobs=6, mem_gb=14, label="write side"),
              KGroup("D", pr, timeout=900 if tier == "quick" else 7200, jobs=6, mem_gb=14, stubbing=True, label="parse side")]
    return {
        "kani": groups,
        "functions_encoded": ["lexical_write_float::write::{write_float,write_nan,write_inf}", "lexical_parse_float::parse::{parse_special,parse_partial_special,is_special_eq}", "lexical_parse_float::shared::starts_with_uncased"],
        "bounds": ["parse: arbitrary bytes up to the stated length with default option strings (NaN, inf; 'infinity' needs len>=8: thorough only reaches 6)", "write: every NaN/inf/zero bit pattern; custom strings of 1..4 symbolic letters"],
        "outside_claim": ["option strings longer than 4 bytes", "formats no_special / case_sensitive_special / special_digit_separator (harnesses not built yet)", "'-0.0' parse sign needs the real fast path: not in this check"],
        "stubs_and_assumes": ["parse harnesses stub the numeric back end"],
        "assumptions": [],
    }
