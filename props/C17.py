"""C17: the allocating `lexical` API equals `lexical-core`; output is ASCII."""
from ._util import H, KGroup


def plan(tier, seed):
    hs = [H("c17::facade_%s" % t, "lexical::to_string == lexical_core::write, every byte < 0x80", "all values") for t in ("u8", "i8", "u16", "i16")]
    hs += [H("c17::facade_parse_%s" % t, "lexical::parse/parse_partial == lexical_core", "arbitrary bytes len<=3") for t in ("u8_3", "i16_3", "u32_3")]
    hs += [H("c17::facade_special_f32", "to_string of NaN/inf/0", "all special patterns"), H("c17::facade_special_f64", "", "all special patterns")]
    asc = [H("c15::w_special_custom_f32", "every byte written for custom NaN/inf strings accepted by is_valid() is 7-bit ASCII", "symbolic strings of length 1..4"),
           H("c15::w_special_custom_f64", "", "symbolic strings of length 1..4")]
    return {
        "kani": [KGroup("S", hs, timeout=1500, jobs=9, mem_gb=14, label="std"), KGroup("D", asc, timeout=900, jobs=2, mem_gb=14, label="ASCII of special strings")],
        "functions_encoded": ["lexical::{to_string,parse,parse_partial}", "lexical_core::{write,parse,parse_partial}"],
        "bounds": ["integers: all values of 8/16-bit types; parse: arbitrary bytes len<=3; floats: special values and zeros only"],
        "outside_claim": ["to_string_with_options / buffer_size sufficiency for floats (needs the float formatting layer: see C09/C14)", "wider integer types (the facade is type-generic code; not re-run)"],
        "assumptions": ["heap allocation modelled by Kani (sizes are compile-time constants here)"],
    }
