"""C14: float write options control digits and notation as documented (decimal formatting layer)."""
from ._util import H, KGroup


def plan(tier, seed):
    D = ("write_with_options::<f64> with Dragonbox stubbed to a symbolic decimal: semantic oracle (decoded value == decimal rounded to max digits, "
         "half-even / truncate; >= min digits; notation by break points; trim_floats; configured punctuation)")
    D2 = ("one notation writer called directly (no notation choice): decoded value == decimal rounded to max digits (half-even / truncate), "
          ">= min digits, trim_floats for integral floats, fraction present otherwise")
    hs = [H("wf::d2_sci_3", "write_float_scientific: " + D2, "mantissa < 10^3, sci exponent -320..300, max/min digits 0..4"),
          H("wf::d2_pos_3", "write_float_positive_exponent: " + D2, "mantissa < 10^3, sci exponent 0..9, max/min digits 0..4"),
          H("wf::d2_neg_3", "write_float_negative_exponent: " + D2, "mantissa < 10^3, sci exponent -6..-1, max/min digits 0..4")]
    if tier == "thorough":
        hs += [H("wf::d2_sci_5", D2, "mantissa < 10^5, max/min 0..6")]
    return {
        "kani": [KGroup("D", hs, timeout=2400 if tier == "quick" else 14400, jobs=3, mem_gb=16, stubbing=False)],
        "functions_encoded": ["lexical_write_float::algorithm::{write_float, write_float_scientific, write_float_positive_exponent, write_float_negative_exponent, write_digits_u64}",
                              "shared::{truncate_and_round_decimal, round_up, write_exponent}", "Options::buffer_size_const"],
        "bounds": ["decimal, STANDARD format, f64; shortest-digit mantissas below the stated bound (no trailing zero), options in the stated ranges; the three notation writers are driven directly with a symbolic (mant, exp)"],
        "outside_claim": ["the notation choice by exponent break points and custom punctuation (the API-level harness wf::d1_* exceeds 50 min / 6.5 GB and is not part of the check)", "what happens to a '.0' produced by digit truncation under trim_floats (not specified)", "mantissas above the bound (17-digit outputs)", "min/max digits above 8, exponent breaks beyond +-12", "compact (Grisu) formatting layer", "power-of-two and generic radix writers", "format flags other than STANDARD"],
        "stubs_and_assumes": ["the writers are called with a symbolic ExtendedFloat80 instead of running Dragonbox (C02's subject)"],
        "assumptions": ["valid options: min <= max, positive break > 0, negative break < 0, punctuation valid for the format"],
    }
