"""C14: float write options control digits and notation as documented (decimal formatting layer)."""
from ._util import H, KGroup


def plan(tier, seed):
    D = ("write_with_options::<f64> with Dragonbox stubbed to a symbolic decimal: semantic oracle (decoded value == decimal rounded to max digits, "
         "half-even / truncate; >= min digits; notation by break points; trim_floats; configured punctuation)")
    hs = [H("wf::d1_pos_3", D, "mantissa < 10^3, exp10 in -8..8, max/min digits 0..4, default breaks, symbolic punctuation/round/trim"),
          H("wf::d1_sci_3", D, "mantissa < 10^3, exp10 in -340..300, max/min digits 0..4, default breaks"),
          H("wf::d1_brk_3", D, "mantissa < 10^3, exp10 in -14..14, max/min digits 0..3, symbolic breaks |b|<=10")]
    if tier == "thorough":
        hs += [H("wf::d1_pos_5", D, "mantissa < 10^5, exp10 in -10..10, max/min 0..6"), H("wf::d1_all_5", D, "mantissa < 10^5, all exponents, max/min 0..8, breaks |b|<=12")]
    return {
        "kani": [KGroup("D", hs, timeout=3000 if tier == "quick" else 14400, jobs=3, mem_gb=16, stubbing=True)],
        "functions_encoded": ["lexical_write_float::algorithm::{write_float, write_float_scientific, write_float_positive_exponent, write_float_negative_exponent, write_digits_u64}",
                              "shared::{truncate_and_round_decimal, round_up, write_exponent}", "Options::buffer_size_const"],
        "bounds": ["decimal, STANDARD format, f64; shortest-digit mantissas below the stated bound (no trailing zero), every decimal exponent, options in the stated ranges"],
        "outside_claim": ["mantissas above the bound (17-digit outputs)", "min/max digits above 8, exponent breaks beyond +-12", "compact (Grisu) formatting layer", "power-of-two and generic radix writers", "format flags other than STANDARD"],
        "stubs_and_assumes": ["algorithm::to_decimal is stubbed: (mant, exp) are decoded from the float's bits; Dragonbox itself is C02's subject"],
        "assumptions": ["valid options: min <= max, positive break > 0, negative break < 0, punctuation valid for the format"],
    }
