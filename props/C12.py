"""C12: syntax flags accept exactly the documented grammar (STANDARD format so far)."""
from ._util import H, KGroup


def plan(tier, seed):
    n = 4 if tier == "quick" else 6
    fl = [H("pf::p1_%s_%s_%d" % (f, m, n), "STANDARD float grammar: accept/reject, count, error kind+index, digit decomposition vs reference recogniser", "arbitrary bytes len<=%d" % n)
          for f in ("f32", "f64") for m in ("partial", "complete")]
    groups = [KGroup("D", fl, timeout=900 if tier == "quick" else 7200, jobs=6, mem_gb=10, stubbing=True, label="STANDARD floats")]
    ints = [H("c04::k1_%s_4" % t, "STANDARD integer grammar vs reference scan", "arbitrary bytes len<=4") for t in ("u8", "i16", "u32", "i64")]
    groups.append(KGroup("D", ints, timeout=900, jobs=6, mem_gb=8, label="STANDARD integers"))
    if tier == "thorough":
        groups.append(KGroup("F", fl[:4], timeout=7200, jobs=6, mem_gb=10, stubbing=True, label="STANDARD floats, format feature on"))
    return {
        "kani": groups,
        "functions_encoded": ["lexical_parse_float::parse::parse_number (through the public API)", "lexical_parse_integer::algorithm"],
        "bounds": ["STANDARD format only; arbitrary bytes up to the stated length"],
        "outside_claim": ["non-STANDARD flag combinations and prebuilt language formats (harnesses not built yet)", "inputs longer than the bound"],
        "stubs_and_assumes": ["numeric back end stubbed; the stub exposes mantissa (low bits) and exponent (low 6 bits) so 'has the value of its digits' is checked on the decomposition"],
        "assumptions": ["reference recogniser kani/src/refs.rs::ref_float with STD_GRAM"],
    }
