"""C12: syntax flags accept exactly the documented grammar."""
from ._util import H, KGroup, pick

FFLAGS = ["f_required_integer_digits_4", "f_required_fraction_digits_4", "f_no_positive_mantissa_sign_4", "f_required_mantissa_sign_4", "f_no_exponent_notation_4",
          "f_no_positive_exponent_sign_4", "f_required_exponent_sign_4", "f_no_exponent_without_fraction_4", "f_no_special_4", "f_case_sensitive_special_4",
          "f_no_float_leading_zeros_4", "f_required_exponent_notation_4", "f_case_sensitive_exponent_4", "f_required_digits_5", "f_not_required_exponent_digits_4",
          "f_req_exp_sign_req_notation_5"]
IFLAGS = ["int_no_leading_zeros_i32_4", "int_no_leading_zeros_u8_3", "int_no_positive_sign_i32_4", "int_required_sign_i32_4", "int_required_sign_nlz_i16_4",
          "p2::int_prefix_x_i32_5", "p2::int_prefix_x_cased_i32_5", "p2::int_suffix_h_i32_4", "p2::int_prefix_suffix_u32_5", "p2::int_prefix_nlz_i32_5"]


def plan(tier, seed):
    n = 4 if tier == "quick" else 5
    fl = [H("pf::p1_%s_%s_%d" % (f, m, n), "STANDARD float grammar: accept/reject, count, error kind+index, digit decomposition vs reference recogniser", "arbitrary bytes len<=%d" % n)
          for f in ("f32", "f64") for m in ("partial", "complete")]
    groups = [KGroup("D", fl, timeout=900 if tier == "quick" else 7200, jobs=6, mem_gb=14, stubbing=True, label="STANDARD floats")]
    ints = [H("c04::k1_%s" % t, "STANDARD integer grammar vs reference scan", "arbitrary bytes len<=%s" % t[-1]) for t in (("u8_4", "i16_3", "u32_4", "i64_3") if tier == "quick" else ("u8_4", "i16_4", "u32_4", "i64_4"))]
    groups.append(KGroup("D", ints, timeout=900, jobs=6, mem_gb=14, label="STANDARD integers"))
    FD = "one syntax flag set: accept/reject, consumed count and digit decomposition vs the flag-parameterised reference recogniser (alphabet + - . 0 1 9 e E x X h n a N i f + one arbitrary byte)"
    if tier == "quick":
        ff = [f for f in FFLAGS if f.endswith("_4")]     # every single-flag set on every run (a seeded sample missed a wrong-flag slip)
        ii = ["int_no_leading_zeros_i32_4", "int_required_sign_i32_4", "p2::int_prefix_x_i32_5", "p2::int_suffix_h_i32_4"]
    else:
        ff, ii = FFLAGS, IFLAGS
        groups.append(KGroup("F", fl[:4], timeout=7200, jobs=6, mem_gb=14, stubbing=True, label="STANDARD floats, format feature on"))
    groups.append(KGroup("PF", [H("c12::" + f, FD, "len<=%s" % f[-1]) for f in ff], timeout=1500, jobs=8, mem_gb=14, stubbing=True, label="float syntax flags"))
    groups.append(KGroup("PF", [H("c12::" + f, "integer syntax flags vs documented grammar [sign][0 prefix]digits[suffix]", "len<=%s" % f[-1]) for f in ii], timeout=1500, jobs=6, mem_gb=14, label="integer syntax flags"))
    return {
        "kani": groups,
        "functions_encoded": ["lexical_parse_float::parse::parse_number (through the public API)", "lexical_parse_integer::algorithm"],
        "bounds": ["STANDARD format: arbitrary bytes up to the stated length, error kind and index asserted", "each syntax flag alone plus a few documented interaction pairs (14 float / 4 integer sets in quick, all 16 float / 10 integer sets in thorough): strings over the number alphabet, accept/reject + value"],
        "outside_claim": ["flag combinations not listed (2^18 monomorphisations cannot be compiled)", "prebuilt language formats", "float base prefix/suffix", "inputs longer than the bound", "error kinds for non-STANDARD flag sets"],
        "stubs_and_assumes": ["numeric back end stubbed; the stub exposes mantissa (low bits) and exponent (low 6 bits) so 'has the value of its digits' is checked on the decomposition"],
        "assumptions": ["reference recogniser kani/src/refs.rs::ref_float with STD_GRAM"],
    }
