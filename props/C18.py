"""C18: format and options validation is sound and complete."""
from ._util import H, KGroup


def plan(tier, seed):
    base = [H("c18::v1_format_error_all_words", "format_error(f) valid <=> documented predicate", "all 2^128 packed formats"),
            H("c18::v2_rebuild_roundtrip", "rebuild(f) denotes the same format, build_strict accepts it", "all valid f"),
            H("c18::v2_build_strict_panics_on_invalid", "build_strict panics for invalid formats (should_panic)", "all invalid rebuilt f"),
            H("c18::v3_options_punctuation", "is_valid_options_punctuation(f, exponent, decimal_point)", "all valid f x 256 x 256")]
    fmt = base + [H("c18::v4_getters_reflect_setters", "31 boolean setters + separator through build_unchecked", "all 2^31 x 256")]
    sets = ["D", "RF", "PF", "F"] if tier == "quick" else ["D", "P", "R", "F", "PF", "RF", "CRF"]
    groups = []
    for fs in sets:
        hs = fmt if "F" in fs else base
        groups.append(KGroup(fs, hs, timeout=600, jobs=5, mem_gb=14, label="features " + fs))
    return {
        "kani": groups,
        "functions_encoded": ["lexical_util::format::format_error_impl (via hook verif_format_error)", "NumberFormatBuilder::{rebuild,build_unchecked,build_strict, setters}",
                              "lexical_util::format_flags::is_valid_options_punctuation"],
        "bounds": ["packed format fully symbolic (all 2^128 words) under each feature set; punctuation bytes fully symbolic"],
        "outside_claim": ["options builders' special-string validation (covered in C15 for lengths <= 4)", "'invalid format never yields a value' end-to-end part is in C10's plan"],
        "assumptions": ["the reference predicate in kani/src/c18.rs transcribes the documented constraints"],
        "stubs_and_assumes": ["hook lexical_util::format::verif_format_error (cfg alexhuszagh_rust_lexical_verif) exposes format_error_impl at run time"],
    }
