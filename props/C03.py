"""C03: integer -> string is the exact canonical numeral."""
from vlib.driver import KGroup


def plan(tier, seed):
    kernels = ["jeaiii_u8", "jeaiii_u16", "jeaiii_u32"]
    return {
        "kani": [],
        "smt": {"features": (), "kernels": kernels},
        "functions_encoded": ["lexical_write_integer::jeaiii::{from_u8,from_u16,from_u32} (MIR, inlined)"],
        "bounds": ["Engine S: all values of the input type; buffer of exactly FORMATTED_SIZE_DECIMAL digits"],
        "outside_claim": [],
        "assumptions": [],
    }
