"""C03: integer -> string is the exact canonical numeral in every radix."""
from ._util import H, KGroup, pick


def plan(tier, seed):
    w1 = [H("c03::w1_%s" % t, "lexical_core::write::<%s>, canonical-numeral oracle" % t, "all values") for t in ("u8", "i8", "u16", "i16")]
    w2q = [H("c03::w2_%s" % t, "write::<%s> on cubes around powers of ten and type limits" % t, "base +- d, d<=300") for t in ("u32", "i32", "u64", "i64")]
    groups = []
    if tier == "quick":
        groups.append(KGroup("D", w1 + w2q, timeout=900, jobs=8, mem_gb=14))
        rq = ["c03::radix::w3_u8_r2", "c03::radix::w3_i8_r16", "c03::radix::w3_u16_r16", "c03::radix::generic::w3_u8_r36", "c03::radix::generic::w3_u8_r3"]
        rq += ["c03::radix::generic::w3_u8_r%d" % r for r in (5, 6, 7, 9, 10, 11, 12, 13, 14, 15, 17, 18, 19, 20, 21, 22, 23, 24, 25, 26, 27, 28, 29, 30, 31, 33, 34, 35)]
        groups.append(KGroup("R", [H(n, "write_with_options radix writer", "all values") for n in rq], timeout=900, jobs=10, mem_gb=14, label="radix"))
        groups.append(KGroup("C", w1[:2] + [H("c03::w1_u16", "compact writer", "all values")], timeout=900, jobs=4, mem_gb=14, label="compact"))
        kernels = ["jeaiii_u8", "jeaiii_u16", "jeaiii_u32", "jeaiii_i64"]
    else:
        w2 = w2q + [H("c03::w2_%s" % t, "cubes", "base +- d, d<=300") for t in ("usize", "isize")]
        groups.append(KGroup("D", w1 + w2, timeout=7200, jobs=8, mem_gb=12))
        rad = ["c03::radix::w3_u8_r2", "c03::radix::w3_i8_r2", "c03::radix::w3_u8_r16", "c03::radix::w3_i8_r16", "c03::radix::w3_u8_r4", "c03::radix::w3_u8_r8",
               "c03::radix::w3_u8_r32", "c03::radix::w3_u16_r16", "c03::radix::w3_i16_r16", "c03::radix::w3_u16_r2", "c03::radix::w3_i16_r8", "c03::radix::w3_u16_r32", "c03::radix::w3_u16_r4"]
        for r in (3, 5, 6, 7, 9, 10, 11, 12, 13, 14, 15, 17, 18, 19, 20, 21, 22, 23, 24, 25, 26, 27, 28, 29, 30, 31, 33, 34, 35, 36):
            rad += ["c03::radix::generic::w3_u8_r%d" % r, "c03::radix::generic::w3_i16_r%d" % r]
        groups.append(KGroup("R", [H(n, "radix writer", "all values") for n in rad], timeout=3600, jobs=14, mem_gb=14, label="radix"))
        groups.append(KGroup("C", w1 + w2q, timeout=3600, jobs=8, mem_gb=14, label="compact"))
        groups.append(KGroup("CRF", [H(n, "compact radix writer", "all values") for n in rad[:13]] + [H("c03::fmt::w4_u8_plus", "required + sign", "all values"), H("c03::fmt::w4_i8_plus", "", "all values"), H("c03::fmt::w4_i16_plus", "", "all values")], timeout=3600, jobs=14, mem_gb=14, label="compact+radix+format"))
        kernels = ["jeaiii_u8", "jeaiii_u16", "jeaiii_u32", "jeaiii_u64", "jeaiii_i64"]
    return {
        "kani": groups,
        "smt": {"features": (), "kernels": kernels},
        "functions_encoded": ["lexical_core::write / write_with_options (Kani)", "lexical_write_integer::jeaiii::{from_u8,from_u16,from_u32,..} (MIR -> SMT)",
                              "lexical_write_integer::{algorithm::algorithm, radix, compact} (Kani, narrow types)"],
        "bounds": ["Engine S: every value of u8/u16/u32 (quick) and additionally u64 and the i64 magnitude range (thorough; head/tail lemmas around the code's own n/10^10, n%10^10) through the decimal jeaiii kernels (digit-pair table abstracted arithmetically after an entry-by-entry check)",
                   "Kani: every value of u8/i8/u16/i16 through the public API, decimal; every u8 value in every radix 2..36 (quick) plus i16 in every radix (thorough); compact writer",
                   "Kani cubes for 32/64/128-bit types: +-300 around powers of ten, 0, MIN, MAX"],
        "outside_claim": ["non-decimal radices for 32/64/128-bit types", "128-bit decimal values outside the Kani cubes (needs a contract for div128_rem_1e10; not built)"],
        "assumptions": ["canonical numerals are unique, so the oracle (digits, no leading zero, Horner value) is equality with Display for radix 10"],
    }
