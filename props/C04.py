"""C04: string -> integer is exact, with exact overflow detection."""
from ._util import H, KGroup, INT_TYPES, PTR_TYPES, pick

PF = ["lexical_core::parse", "lexical_core::parse_partial", "lexical_parse_integer::algorithm::{algorithm_complete,algorithm_partial}",
      "lexical_util::{iterator,noskip,digit}"]


def plan(tier, seed):
    groups = []
    if tier == "quick":
        k1 = [H("c04::k1_%s_4" % t, "parse+parse_partial::<%s> vs reference scan, arbitrary bytes" % t, "len<=4, all 256 byte values") for t in INT_TYPES]
    else:
        k1 = [H("c04::k1_%s_4" % t, "parse+parse_partial::<%s> vs reference scan, arbitrary bytes" % t, "len<=4, all 256 byte values") for t in INT_TYPES + PTR_TYPES]
    swar = [H("c04::swar::swar4_r10", "is_4digits/parse_4digits", "all 2^32 words")]
    if tier == "quick":
        k2 = [H("c04::k2_u8_5", "overflow frontier u8: [sign]digits + one arbitrary byte", "len<=5")]
        groups.append(KGroup("D", k1 + swar + k2, timeout=800, jobs=12, mem_gb=12))
        radix = [H("c04::radix::k4_u8_r2_6", "radix 2, u8", "len<=6"), H("c04::radix::k4_u16_r16_5", "radix 16, u16", "len<=5"),
                 H("c04::radix::generic::k4_u8_r36", "radix 36, u8 (letters in both cases)", "len<=4"),
                 H("c04::radix::generic::k2_u8_r36", "radix 36 overflow frontier u8", "len<=4")]
        extra = pick(["c04::radix::generic::k4_u8_r%d" % r for r in (3, 5, 6, 7, 9, 11, 12, 13, 14, 15, 17, 18, 19, 20, 21, 22, 23, 24, 25, 26, 27, 28, 29, 30, 31, 33, 34, 35)], seed, 2)
        radix += [H(n, "seeded radix sample, u8", "len<=4") for n in extra]
        groups.append(KGroup("R", radix, timeout=800, jobs=6, mem_gb=12, label="radix"))
    else:
        k1 += [H("c04::k1_%s_6" % t, "arbitrary bytes", "len<=6") for t in INT_TYPES]
        k1 += [H("c04::k1_%s_8" % t, "arbitrary bytes", "len<=8") for t in ("u32", "u64")]
        k2 = [H("c04::k2_%s" % n, "overflow frontier", n) for n in ("u8_5", "i8_5", "u16_7", "i16_7")]
        k2w = []   # the overflow-frontier windows for 32/64/128-bit types did not finish in 20 min: not part of the check
        k3 = [H("c04::k3_%s" % n, "no_multi_digit on/off", n) for n in ("u32_6_multi_c", "u32_6_nomulti_c", "u32_6_multi_p", "u32_6_nomulti_p", "i32_6_multi_c", "i32_6_nomulti_c")]
        swar.append(H("c04::swar::swar8_r10", "is_8digits/parse_8digits", "all 2^64 words"))
        groups.append(KGroup("D", k1 + swar + k2 + k2w + k3, timeout=7200, jobs=14, mem_gb=12))
        rad = ["c04::radix::k4_u8_r2_9", "c04::radix::k4_i8_r2_9", "c04::radix::k4_u16_r16_5", "c04::radix::k4_i16_r16_5", "c04::radix::k4_u32_r8_5",
               "c04::radix::k4_u32_r16_5", "c04::radix::k4_u8_r4_5", "c04::radix::k4_i16_r32_5", "c04::radix::k4_u64_r16_5", "c04::radix::k4_i64_r2_5",
               "c04::radix::k2_u8_r16_4", "c04::radix::k2_i8_r16_4", "c04::radix::k2_u16_r16_6", "c04::radix::k2_i16_r16_6", "c04::radix::k2_u8_r2_10",
               "c04::radix::k2_i8_r2_10", "c04::radix::k2_u16_r8_8", "c04::radix::k2_u32_r16_10", "c04::radix::k2_i32_r16_10",
               "c04::radix::generic::k4_u32_r36_5", "c04::radix::generic::k4_u32_r7_5", "c04::radix::generic::k2_u32_r36_9", "c04::radix::generic::k2_i32_r17_10"]
        for r in (3, 5, 6, 7, 9, 10, 11, 12, 13, 14, 15, 17, 18, 19, 20, 21, 22, 23, 24, 25, 26, 27, 28, 29, 30, 31, 33, 34, 35, 36):
            rad += ["c04::radix::generic::k4_u8_r%d" % r, "c04::radix::generic::k4_i16_r%d" % r, "c04::radix::generic::k2_u8_r%d" % r, "c04::radix::generic::k2_i16_r%d" % r]
        rad += ["c04::swar::r::swar4_r%d" % r for r in range(2, 10)] + ["c04::swar::r::swar8_r%d" % r for r in range(2, 10)]
        groups.append(KGroup("R", [H(n, "radix family", n.split("::")[-1]) for n in rad], timeout=7200, jobs=14, mem_gb=12, label="radix"))
    return {
        "kani": groups,
        "functions_encoded": PF,
        "bounds": ["K1: arbitrary byte strings up to the stated length (every byte value), 12 integer types, decimal",
                   "K2: [sign]digits with one arbitrary byte, up to max_digits+2 (8/16-bit types)",
                   "K4: radix sample (quick) / all 35 radices for u8,i16 (thorough), letters in both cases",
                   "SWAR kernels: every 32-bit word (quick) and 64-bit word (thorough)"],
        "outside_claim": ["arbitrary-byte inputs longer than the harness bound", "overflow frontier of 32/64/128-bit types (digit strings of 10-41 bytes: the window harnesses did not finish)",
                          "format-feature grammar (prefix/suffix/separators): see C12/C13"],
        "assumptions": ["reference scan in kani/src/refs.rs::ref_int_* is the specification"],
    }
