"""C16: cargo features are additive (equality across builds through one shared reference)."""
from ._util import H, KGroup, pick


def plan(tier, seed):
    fams_int = [H("c04::k1_u8_4", "integer parse vs reference", "len<=4"), H("c04::k1_u64_4", "", "len<=4")] + ([H("c04::k1_i32_4", "", "len<=4")] if tier == "thorough" else [])
    fams_wr = [H("c03::w1_u8", "integer write vs canonical numeral", "all values"), H("c03::w1_i16", "", "all values"), H("c03::w2_u32", "", "cubes")]
    fams_fl = [H("pf::p1_f64_partial_4", "float grammar/count/error kind+index/decomposition vs reference", "len<=4"), H("pf::p1_f32_complete_4", "", "len<=4")]
    sets = (["C", "RF"] + pick(["P", "R", "F"], seed, 1)) if tier == "quick" else ["C", "P", "R", "F", "RF", "CRF", "CF", "S", "SRF"]
    groups = []
    for fs in sets:
        groups.append(KGroup(fs, fams_int + fams_wr, timeout=800 if tier == "quick" else 3600, jobs=6, mem_gb=12, label="ints " + fs))
        groups.append(KGroup(fs, fams_fl, timeout=800 if tier == "quick" else 3600, jobs=2, mem_gb=14, stubbing=True, label="float grammar " + fs))
    return {
        "kani": groups,
        "functions_encoded": ["the STANDARD-format harness families of C04, C03 and C12 compiled under each feature set"],
        "bounds": ["each feature set must equal the same reference model (hence each other) on: integer parsing (arbitrary bytes len<=4), integer writing (all u8/i16, u32 cubes), float grammar/count/error/decomposition (len<=4)"],
        "outside_claim": ["float values across configurations (Lemire vs Bellerophon, Dragonbox vs Grisu) reduce to C01/C02", "float output bytes (formatting layer harness is default-features only)", "default-feature baseline itself is C04/C03/C12"],
        "stubs_and_assumes": ["float harnesses stub the numeric back end"],
        "assumptions": [],
    }
