from vlib.driver import KGroup


def H(name, desc="", bound="", funcs=None):
    return dict(name=name, desc=desc, bound=bound, funcs=funcs or [])


INT_TYPES = ["u8", "i8", "u16", "i16", "u32", "i32", "u64", "i64", "u128", "i128"]
PTR_TYPES = ["usize", "isize"]


def pick(seq, seed, k):
    """Deterministic VERIF_SEED-driven sample of k items (only ever used to ADD coverage)."""
    import random
    r = random.Random(seed)
    seq = list(seq)
    r.shuffle(seq)
    return seq[:k]


LEMIRE_RANGE = {"f64": (-342, 308), "f32": (-65, 38)}


def lemire_rows(f, tier, seed, base, n_seeded=6, small=False):
    """Kernel ids `base_<f>@q=<row>` for the boundary rows (always) plus a seeded sample (quick)
    or every row (thorough), plus the two unbounded ranges outside the table."""
    lo, hi = LEMIRE_RANGE[f]
    core = {lo - 1, lo, lo + 1, -28, -27, -5, -1, 0, 1, 22, 23, 27, 28, 55, 56, hi - 1, hi, hi + 1}
    if small and tier != "thorough":
        core = {lo, -27, 0, 28, hi} if f == "f64" else {lo, 0, hi}
    if tier == "thorough":
        rows = set(range(lo - 1, hi + 2))
    else:
        rows = set(core) | set(pick([q for q in range(lo, hi + 1) if q not in core], seed, n_seeded))
    ids = ["%s_%s@q=%d" % (base, f, q) for q in sorted(rows)]
    ids += ["%s_%s@q<%d" % (base, f, lo - 1), "%s_%s@q>%d" % (base, f, hi + 1)]
    return ids
