"""C09: writers honour the documented buffer bound and never touch memory outside it."""
from ._util import H, KGroup


def plan(tier, seed):
    ints = [H("c03::w1_%s" % t, "write::<%s> into exactly FORMATTED_SIZE_DECIMAL bytes: no panic, length within bound, all pointer checks" % t, "all values") for t in ("u8", "i8", "u16", "i16")]
    ints += [H("c03::w2_%s" % t, "cubes, exactly FORMATTED_SIZE_DECIMAL bytes", "base +- d") for t in ("u32", "i64", "usize")]
    groups = [KGroup("D", ints, timeout=900, jobs=8, mem_gb=14, label="integers, exact buffer"),
              KGroup("D", [H("wf::d3_bound_3", "write_with_options::<f64> (Dragonbox stubbed to a symbolic decimal) into exactly buffer_size_const (=64) bytes: no panic, no out-of-bounds access, length within bound", "mantissa < 10^3, all exponents, max/min digits 0..8, breaks |b|<=12, round/trim symbolic")], timeout=2400, jobs=1, mem_gb=16, stubbing=True, label="floats, exact buffer")]
    D4 = "write_with_options::<f64> (symbolic decimal) into exactly buffer_size_const bytes under extreme options: no panic, length within bound"
    d4 = [H("wf::d4_mindigits", D4, "min digits 54..58, default breaks, mantissa < 10^3, all exponents"),
          H("wf::d4_negbreak", D4, "negative break -46..-42, max digits 1..6, scientific exponent -48..-40"),
          H("wf::d4_posbreak", D4, "positive break 60..63, max digits 1..3, scientific exponent 58..65")]
    groups.append(KGroup("D", d4, timeout=1500, jobs=3, mem_gb=14, stubbing=True, label="floats, extreme options (three open findings)"))
    kernels = ["jeaiii_u8", "jeaiii_u16", "jeaiii_u32"]
    if tier == "thorough":
        groups.append(KGroup("R", [H("c03::radix::w3_u8_r2", "radix writer, FORMATTED_SIZE bytes", "all values"), H("c03::radix::w3_i16_r16", "", "all values")], timeout=900, jobs=2, mem_gb=14, label="radix"))
    return {
        "kani": groups,
        "smt": {"features": (), "kernels": kernels},
        "functions_encoded": ["lexical_core::write (integers)", "jeaiii::from_u* (every unchecked table read and buffer write: in-bounds obligations at full width)", "float formatting layer (see C14)"],
        "bounds": ["integers: buffer of exactly the documented size; floats: exactly Options::buffer_size_const for symbolic options in C14's ranges",
                   "floats, extreme options: three regions near the 64-byte floor of the bound (many minimum digits; far negative break; far positive break), mantissa < 10^3"],
        "outside_claim": ["shorter-than-bound buffers (panic-but-no-UB twin not built)", "float options outside the stated regions (digits in the hundreds, breaks in the hundreds: same code paths as the three regions, longer loops)", "lexical::to_string_with_options sizing"],
        "stubs_and_assumes": ["to_decimal stubbed in the float harness"],
        "assumptions": [],
    }
