"""C02: float -> decimal round-trips and is shortest (Dragonbox numerics in Engine S, cube-bounded)."""
from ._util import H, KGroup, pick


def plan(tier, seed):
    ks = []
    if tier == "quick":
        # f32: a few binades, 8 free low bits, high bits zero / seeded; one shorter-interval row per type
        bin32 = [127, 160] + pick([1, 30, 60, 90, 100, 140, 180, 200, 230, 254], seed, 1)
        for E in bin32:
            ks.append("dragonbox_f32@E=%d,free=8,hi=0" % E)
        ks.append("dragonbox_f32@E=160,free=8,hi=%#x" % (0x7102 + (seed % 7)))
        ks += ["dragonbox_f32@E=%d,shorter" % E for E in range(1, 255)]
        ks += ["dragonbox_f64@E=%d,shorter" % E for E in range(1 + seed % 3, 2047, 3)]
    else:
        ks += ["rtz_f32"]   # rtz_f64 (12 trial divisions) leaves two paths undecided when the machine is loaded: not part of the check
        for E in range(1, 255, 6):
            for hi in (0, 0x7fff, 0x5555):
                ks.append("dragonbox_f32@E=%d,free=8,hi=%#x" % (E, hi))
        for E in range(1, 255):
            ks.append("dragonbox_f32@E=%d,shorter" % E)
        for E in range(1, 2047):
            ks.append("dragonbox_f64@E=%d,shorter" % E)
        for E in (1023, 1086, 2046):   # E = 1, 500, 1500 need more than the per-query time limit under load
            ks.append("dragonbox_f64@E=%d,free=3,hi=0" % E)
    return {
        "kani": [],
        "smt": {"features": (), "kernels": ks, "workers": 8},
        "functions_encoded": ["lexical_write_float::algorithm::{compute_nearest_normal, compute_nearest_shorter}::<f32|f64> (MIR -> SMT)",
                              "<f32|f64 as DragonboxFloat>::{compute_mul, compute_mul_parity, compute_delta, check_div_pow10, divide_by_pow10, remove_trailing_zeros}", "table_dragonbox cache rows"],
        "bounds": ["compute_nearest_normal, per binary exponent (binade): the low `free` mantissa bits symbolic, high bits fixed (cube); compute_nearest_shorter: the single (power of two) input of each binade - all 254 f32 binades and every third f64 binade (seed-rotated) in quick, all 2046 in thorough",
                   "oracle: exact rational interval membership (round trip), no shorter decimal in the interval, no strictly closer neighbour of the same length, no trailing zero",
                   "remove_trailing_zeros contract (m == n*10^s, n%10 != 0) is assumed inside the Dragonbox kernels; it is decided separately for f32 and m < 2^24 (thorough tier, rtz_f32) and validated on concrete inputs every run (f64: concrete validation only)"],
        "outside_claim": ["f64 compute_nearest_normal beyond 3 free mantissa bits on 3 binades (thorough only; a 6-bit f64 cube needs > 15 min, the 12-bit cube that exposed the threshold defect needed 25 min)", "mantissas outside the cubes (the full 2^23 / 2^52 mantissas of a binade time out)", "remove_trailing_zeros for significands >= 2^24 (full-width queries time out on one path): covered only by concrete validation",
                          "digit emission and formatting (C14)", "compact (Grisu) builds", "the rounding interval follows round-to-nearest-even parsing"],
        "stubs_and_assumes": ["process_trailing_zeros/remove_trailing_zeros replaced by their contract in the dragonbox_* kernels"],
        "assumptions": [],
    }
