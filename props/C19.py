"""C19: lossy parsing changes only precision."""
from ._util import H, KGroup, lemire_rows


def plan(tier, seed):
    n = 3 if tier == "quick" else 4
    hs = [H("pf::p3_lossy_f32_%d" % n, "lossy on/off: same acceptance, count, error (numerics stubbed)", "arbitrary bytes len<=%d" % n),
          H("pf::p3_lossy_f64_%d" % n, "", "arbitrary bytes len<=%d" % n)]
    if tier == "thorough":
        hs.append(H("pf::p3_lossy_f32_5", "", "arbitrary bytes len<=5"))
    return {
        "kani": [KGroup("D", hs, timeout=800 if tier == "quick" else 7200, jobs=3, mem_gb=14, stubbing=True)],
        "smt": {"features": (), "workers": 8,
                "kernels": lemire_rows("f64", tier, seed, "lemire_lossy_rel", 2, small=True) + lemire_rows("f32", tier, seed, "lemire_lossy_rel", 1, small=True)
                + (["lemire_wrap_f64@exponent=5", "lemire_wrap_f32@exponent=0"] if tier == "quick" else
                   ["lemire_wrap_f64@exponent=%d" % q for q in (-20, -5, 0, 5, 22, 27, 28, 55, 100, 300)] + ["lemire_wrap_f32@exponent=%d" % q for q in (-20, 0, 10, 30)])},
        "functions_encoded": ["lexical_core::parse_with_options / parse_partial_with_options (lossy)", "lexical_parse_float::lemire::compute_float (lossy vs exact, MIR -> SMT)", "lexical_parse_float::lemire::lemire (truncated-digits second pass: with lossy never the error marker)"],
        "bounds": ["grammar layer: arbitrary bytes len<=3 (quick) / 4-5 (thorough)", "lemire(num, lossy): per exponent row, every mantissa (19-digit mantissas when digits were truncated), many_digits and lossy symbolic: lossy => result is a float, not the error marker", "compute_float(q,w,true) vs compute_float(q,w,false), per table row q (boundary + seeded rows in quick, all rows thorough), all 64-bit w: equal, or the exact result is the error marker"],
        "outside_claim": ["within-one-ULP when the exact algorithm falls back to the slow path", "Bellerophon (compact/radix) lossy"],
        "stubs_and_assumes": ["grammar harnesses stub the numeric back end"],
        "assumptions": [],
    }
