"""C01: decimal string -> float is correctly rounded (decomposed at the pipeline's seams)."""
from ._util import H, KGroup, pick


def plan(tier, seed):
    n = 4 if tier == "quick" else 5
    seam1 = [H("pf::p1_%s_%s_%d" % (f, m, n), "seam 1: text -> (mantissa, exponent, sign) through the public API (numeric back end stubbed to expose the decomposition)", "arbitrary bytes len<=%d" % n)
             for f, m in (("f64", "partial"), ("f32", "complete"))]
    seam24 = [H("c01::fast_path_f64", "seam 2: is_fast_path/try_fast_path only admit exactly representable operands; power tables equal 10^e", "all Number{mantissa: u64, exponent: i64}"),
              H("c01::fast_path_f32", "", "all Number"), H("c01::pack_f64", "seam 4: (mant, biased exp) -> IEEE bits", "all"), H("c01::pack_f32", "", "all")]
    groups = [KGroup("D", seam1, timeout=900 if tier == "quick" else 7200, jobs=2, mem_gb=14, stubbing=True, label="seam 1"),
              KGroup("D", seam24, timeout=600, jobs=4, mem_gb=14, label="seams 2 and 4")]
    # seam 3: Eisel-Lemire rows. Rows 0..27 at full 64-bit width, other rows at <= 12 significant bits.
    ks = []
    if tier == "quick":
        exact_rows = [0, 1, 10, 22, 27] + pick([q for q in range(2, 27) if q not in (10, 22)], seed, 2)
        lzs = [0, 11] + pick([1, 2, 3, 5, 8, 20, 40, 63], seed, 1)
        for q in exact_rows:
            for k in lzs:
                ks.append("lemire_exact_f64@q=%d,k=%d" % (q, k))
        for q in [0, 10] + pick(list(range(1, 19)), seed, 1):
            ks.append("lemire_exact_f32@q=%d,k=0" % q)
        for q in [-5, 300] + pick([-300, -100, -30, 60, 100, 200], seed, 1):
            ks.append("lemire_exact_f64@q=%d,k=0,bits=12" % q)
        ks.append("lemire_exact_f32@q=30,k=0,bits=12")
        # boundary rows of the table (first / last power of ten)
        ks += ["lemire_exact_f64@q=308,k=0,bits=12", "lemire_exact_f64@q=-342,k=0,bits=12", "lemire_exact_f32@q=38,k=0,bits=12", "lemire_exact_f32@q=-65,k=0,bits=12",
               "lemire_exact_f64@q=308,k=63", "lemire_exact_f64@q=308,k=61", "lemire_exact_f32@q=38,k=63", "lemire_exact_f32@q=38,k=62", "lemire_exact_f64@q=-342,k=63", "lemire_exact_f32@q=-65,k=63"]
    else:
        for q in range(0, 28):
            for k in (0, 3, 11, 40, 63):
                ks.append("lemire_exact_f64@q=%d,k=%d" % (q, k))
        for q in range(0, 19):
            for k in (0, 40):
                ks.append("lemire_exact_f32@q=%d,k=%d" % (q, k))
        for q in list(range(-342, 0, 19)) + list(range(28, 309, 19)) + [308]:
            ks.append("lemire_exact_f64@q=%d,k=0,bits=12" % q)
        for q in list(range(-65, 0, 8)) + list(range(19, 39, 5)) + [38]:
            ks.append("lemire_exact_f32@q=%d,k=0,bits=12" % q)
        ks += ["lemire_exact_f64@q=308,k=63", "lemire_exact_f64@q=308,k=61", "lemire_exact_f32@q=38,k=63", "lemire_exact_f32@q=38,k=62", "lemire_exact_f64@q=-342,k=63", "lemire_exact_f32@q=-65,k=63"]
    return {
        "kani": groups,
        "smt": {"features": (), "kernels": ks + ["max_digits_f64", "max_digits_f32"], "workers": 8},
        "functions_encoded": ["lexical_parse_float::parse::parse_number (Kani, via API)", "Number::{is_fast_path,try_fast_path}, float::{pow_fast_path,int_pow_fast_path} (Kani)",
                              "lexical_parse_float::lemire::compute_float::<f32|f64> (MIR -> SMT, exact integer oracle)", "float::extended_to_float (Kani)",
                              "limits::{f32_max_digits,f64_max_digits} (MIR -> SMT: slow-path digit cap >= exact maximum digits of a halfway point)"],
        "bounds": ["seam 1: arbitrary bytes up to the stated length", "seam 2/4: all inputs",
                   "seam 3: table rows q in [0,27] (exact powers): every 64-bit w with the stated leading-zero count; other rows: every w with <= 12 significant bits; rows and leading-zero counts sampled in quick, swept in thorough"],
        "outside_claim": ["full-width mantissas on rows outside [0,27] (near-halfway 17-19 digit inputs)", "big-integer slow path (slow::digit_comp, bigint)", "Bellerophon (compact / radix builds)",
                          "inputs with more than 19 significant digits (many_digits) end to end", "the IEEE-754 multiply/divide of the fast path is trusted"],
        "stubs_and_assumes": ["seam 1 harnesses stub moderate_path/slow_path/try_fast_path", "ctlz of w is pinned by the range precondition of each (row, leading-zero) kernel"],
        "assumptions": ["composition of the seams is argued in DESIGN.md, not machine-checked"],
    }
