"""C10: parsers are total: no panic, no out-of-bounds read, indices within the input."""
from ._util import H, KGroup, INT_TYPES, PTR_TYPES, lemire_rows


def plan(tier, seed):
    groups = []
    ln = lambda t: 3 if (tier == "quick" and t[0] == "i") else 4
    ints = [H("c04::k1_%s_%d" % (t, ln(t)), "integer parse+parse_partial: Kani's automatic panic/overflow/pointer checks + index<=len", "arbitrary bytes len<=%d" % ln(t)) for t in INT_TYPES]
    fl = [H("pf::p1_%s_%s_4" % (f, m), "float %s parser, numeric back end stubbed: no panic, count<=len, error index<=len" % m, "arbitrary bytes len<=4") for f in ("f32", "f64") for m in ("partial", "complete")]
    if tier == "quick":
        groups.append(KGroup("D", ints, timeout=900, jobs=10, mem_gb=14, label="integers default"))
        groups.append(KGroup("D", fl, timeout=900, jobs=6, mem_gb=14, stubbing=True, label="floats default (stubbed numerics)"))
        kernels = lemire_rows("f64", tier, seed, "lemire_nopanic", 4) + lemire_rows("f32", tier, seed, "lemire_nopanic", 2)
    else:
        ints += [H("c04::k1_%s_6" % t, "integers", "arbitrary bytes len<=6") for t in INT_TYPES]
        fl += [H("pf::p1_%s_%s_%d" % (f, m, n), "floats", "arbitrary bytes len<=%d" % n) for f in ("f32", "f64") for m in ("partial", "complete") for n in (5,)]
        groups.append(KGroup("D", ints, timeout=7200, jobs=14, mem_gb=12, label="integers default"))
        groups.append(KGroup("D", fl, timeout=7200, jobs=12, mem_gb=12, stubbing=True, label="floats default (stubbed numerics)"))
        groups.append(KGroup("C", ints[:10] , timeout=7200, jobs=14, mem_gb=12, label="integers compact"))
        groups.append(KGroup("RF", ints[:10], timeout=7200, jobs=14, mem_gb=12, label="integers radix+format"))
        groups.append(KGroup("RF", fl[:4], timeout=7200, jobs=12, mem_gb=12, stubbing=True, label="floats radix+format"))
        kernels = lemire_rows("f64", tier, seed, "lemire_nopanic") + lemire_rows("f32", tier, seed, "lemire_nopanic")
    return {
        "kani": groups,
        "smt": {"features": (), "kernels": kernels, "workers": 8},
        "functions_encoded": ["lexical_core::{parse,parse_partial} for 10 integer types and f32/f64", "lexical_parse_float::parse::{parse_complete,parse_partial,parse_number,parse_special}",
                              "lexical_parse_float::lemire::compute_float (MIR -> SMT, panic-freedom for all q, w)"],
        "bounds": ["arbitrary byte strings (all 256 values per byte) up to the stated length", "dev profile: debug assertions and overflow checks ON (Kani models it)",
                   "compute_float: per table row q (boundary rows + seeded sample in quick, every row in thorough, plus all q outside the table as two symbolic ranges), every w: u64, lossy symbolic: every MIR assert / panic / table-index obligation"],
        "outside_claim": ["inputs longer than the bound", "slow-path big-integer loops, Bellerophon table walks", "format-feature iterators (separators, prefixes): thorough tier covers STANDARD format under the format feature only"],
        "stubs_and_assumes": ["pf::* harnesses stub parse::moderate_path, parse::slow_path and Number::try_fast_path (numerics are checked separately)"],
        "assumptions": [],
    }
