"""Generic executor: runs a property's plan (Kani groups + SMT obligations), judges it,
replays counterexamples, handles known findings and writes the evidence file."""
import importlib
import json
import os
import sys
import time

from . import kani as K
from .common import (load_known_findings, match_finding, write_evidence, seed, log,
                     repo_head, REPLAY_DIR, WORK)

EXIT_OK, EXIT_VIOLATION, EXIT_INCONCLUSIVE = 0, 1, 2


class KGroup:
    """A set of Kani harnesses verified under one build configuration."""

    def __init__(self, fs, harnesses, timeout=600, jobs=8, mem_gb=10, stubbing=False, label=None):
        self.fs = fs
        self.harnesses = harnesses  # list of dict(name=, desc=, funcs=[...], bound=)
        self.timeout = timeout
        self.jobs = jobs
        self.mem_gb = mem_gb
        self.stubbing = stubbing
        self.label = label or fs


def load_plan(prop, tier):
    mod = importlib.import_module("props." + prop)
    return mod.plan(tier, seed())


def execute(prop, tier):
    t0 = time.time()
    plan = load_plan(prop, tier)
    findings = load_known_findings()
    violations = []      # (unit, desc, replay_path)
    known = []           # (finding, unit, desc)
    inconclusive = []    # strings
    samples = []
    queries = 0
    discharged = 0
    solver_s = 0.0
    nontrivial = 0
    witnesses = 0
    units_run = 0
    harness_reports = []

    # ---- Engine K (+ Engine S concurrently) -----------------------------
    # All harness groups (one cargo-kani invocation per build configuration) and the Engine S
    # kernel pool run concurrently: the machine has 16 cores and most harnesses are single CBMC
    # processes of 1-3 GB.
    import concurrent.futures as cf
    kgroups = list(plan.get("kani", []))
    smt = plan.get("smt")
    pool = cf.ThreadPoolExecutor(max(1, len(kgroups) + (1 if smt else 0)))
    futs = []
    for gi, g in enumerate(kgroups):
        names = [h["name"] for h in g.harnesses]
        tag = "%s-%s-%d" % (prop, tier, gi)
        log("[%s] kani group %s (%s): %d harnesses, features=%s" % (prop, gi, g.label, len(names), K.FEATURE_SETS[g.fs]))
        futs.append(pool.submit(K.run_group, g.fs, names, tag, g.timeout, g.jobs, g.mem_gb, g.stubbing))
    sfut = None
    if smt:
        from . import smtrun
        sfut = pool.submit(smtrun.run_obligations, prop, tier, smt)
    for gi, g in enumerate(kgroups):
        results, info = futs[gi].result()
        if info.get("compile_error"):
            inconclusive.append("group %s: build failed: %s" % (g.label, "; ".join(info.get("errors", []))[:500]))
        for h in g.harnesses:
            r = results[h["name"]]
            units_run += 1
            rep = r.as_dict()
            rep.update({"features": K.FEATURE_SETS[g.fs], "desc": h.get("desc", ""), "bound": h.get("bound", "")})
            harness_reports.append(rep)
            queries += r.n_checks
            solver_s += r.solver_s
            if r.status == "success":
                discharged += r.n_passed
                if r.covers_unsat:
                    inconclusive.append("%s: vacuous - reachability witness unsatisfiable: %s" % (r.name, r.covers_unsat))
                else:
                    nontrivial += 1
                    witnesses += len(r.covers_sat)
                    discharged += len(r.covers_sat)
            elif r.status == "failure":
                discharged += r.n_passed
                real = list(r.failed)
                if r.unwind_failed and not real:
                    inconclusive.append("%s: unwinding bound exceeded (%s)" % (r.name, r.unwind_failed[0][2]))
                unknown = []
                for (cat, desc, loc) in real:
                    f = match_finding(findings, prop, r.name, desc + " @ " + loc)
                    if f:
                        known.append((f, r.name, desc + " @ " + loc))
                    else:
                        unknown.append((cat, desc, loc))
                if unknown:
                    # replay before reporting
                    ok, rfile, text = K.playback(g.fs, r.name, prop, stubbing=g.stubbing)
                    d = "; ".join("%s @ %s" % (x[1], x[2]) for x in unknown[:4])
                    if ok:
                        violations.append((r.name, d, rfile))
                    elif ok is False:
                        inconclusive.append("%s: counterexample did not reproduce natively (%s)" % (r.name, d))
                    else:
                        # could not build a replay (e.g. stubbed harness): report, flagged
                        rfile = rfile or _write_note(prop, r.name, d, text)
                        violations.append((r.name, d + " [replay not executable: see file]", rfile))
            else:
                inconclusive.append("%s: %s %s" % (r.name, r.status, r.note))
            if len(samples) < 12:
                samples.append({"engine": "kani", "harness": r.name, "features": K.FEATURE_SETS[g.fs],
                                "what": h.get("desc", ""), "bound": h.get("bound", ""),
                                "status": r.status, "checks": r.n_checks, "covers": len(r.covers_sat)})

    # ---- Engine S -------------------------------------------------------
    smt_reports = []
    traces_validated = 0
    if smt:
        sres = sfut.result()
        traces_validated = sres["traces_validated"]
        for o in sres["obligations"]:
            units_run += 1
            queries += o["queries"]
            solver_s += o["solver_s"]
            smt_reports.append(o)
            if o["status"] == "unsat":
                discharged += o["queries"]
                if o.get("witness_ok", True):
                    nontrivial += 1
                else:
                    inconclusive.append("%s: vacuity witness failed" % o["id"])
            elif o["status"] == "sat":
                f = match_finding(findings, prop, o["id"], o.get("desc", ""))
                if f:
                    known.append((f, o["id"], o.get("model_text", "")))
                elif o.get("replayed") is True:
                    violations.append((o["id"], o.get("model_text", ""), o.get("replay_file")))
                elif o.get("replayed") is False:
                    inconclusive.append("%s: model did not reproduce natively: %s" % (o["id"], o.get("model_text", "")))
                else:
                    violations.append((o["id"], o.get("model_text", "") + " [not replayed]", o.get("replay_file")))
            else:
                inconclusive.append("%s: %s" % (o["id"], o["status"]))
            if len(samples) < 24:
                samples.append({"engine": "smt", "obligation": o["id"], "what": o.get("desc", ""),
                                "status": o["status"], "solver": o.get("solver", ""), "solver_s": o["solver_s"]})
        for m in sres.get("errors", []):
            inconclusive.append(m)

    wall = time.time() - t0
    coverage = {
        "evaluations": queries,
        "distinct_nontrivial": nontrivial,
        "rule": "evaluations = individual solver-decided checks (CBMC properties incl. automatic overflow/pointer/"
                "unwinding checks and reachability witnesses; SMT queries). distinct_nontrivial = distinct harness "
                "instantiations / SMT obligations that were decided AND whose reachability (vacuity) witnesses were "
                "all satisfiable.",
        "samples": samples,
        "obligations": queries,
        "discharged": discharged,
        "witnesses_satisfied": witnesses,
        "traces_validated_against_impl": traces_validated,
        "solver_s": round(solver_s, 2),
        "functions_encoded": plan.get("functions_encoded", []),
        "bounds": plan.get("bounds", []),
        "outside_claim": plan.get("outside_claim", []),
        "feature_sets": sorted({",".join(K.FEATURE_SETS[g.fs]) or "default" for g in plan.get("kani", [])}),
        "stubs_and_assumes": plan.get("stubs_and_assumes", []),
        "harnesses": harness_reports,
        "smt_obligations": smt_reports,
        "repo_rev": repo_head(),
        "known_findings_hit": [k[0].get("id", "") for k in known],
        "inconclusive": inconclusive,
        "checker_cmd": "./check %s --tier %s" % (prop, tier),
        "trusted_base": ["rustc/Kani 0.68 MIR->goto translation", "CBMC 6.11 + CaDiCaL", "cvc5 1.0 / z3 (Engine S)",
                         "reference models in /verif/kani/src/refs.rs and /verif/smt/*.py"],
    }
    write_evidence(prop, tier, "model_checking", coverage, plan.get("assumptions", []), wall, len(violations))

    seen = set()
    for (f, unit, desc) in known:
        key = f.get("id")
        if key in seen:
            continue
        seen.add(key)
        print("KNOWN-FINDING: property=%s %s" % (prop, f.get("what", f.get("id", ""))))
    for (unit, desc, rfile) in violations:
        print("VIOLATION property=%s replay=%s" % (prop, rfile))
        print("  unit=%s: %s" % (unit, desc))
    for m in inconclusive:
        print("INCONCLUSIVE property=%s %s" % (prop, m))
    print("[%s] tier=%s units=%d checks=%d discharged=%d witnesses=%d solver_s=%.1f wall_s=%.1f violations=%d known=%d inconclusive=%d"
          % (prop, tier, units_run, queries, discharged, witnesses, solver_s, wall, len(violations), len(seen), len(inconclusive)))
    if violations:
        return EXIT_VIOLATION
    if inconclusive:
        return EXIT_INCONCLUSIVE
    return EXIT_OK


def _write_note(prop, unit, desc, text):
    d = os.path.join(REPLAY_DIR, prop)
    os.makedirs(d, exist_ok=True)
    p = os.path.join(d, unit.replace("::", "__") + ".txt")
    with open(p, "w") as f:
        f.write("unit: %s\nfailed: %s\n\n%s\n" % (unit, desc, text or ""))
    return p
