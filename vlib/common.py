"""Shared plumbing for the /verif checks: paths, subprocesses, evidence, findings."""
import json
import os
import re
import resource
import subprocess
import sys
import time

VERIF = os.path.dirname(os.path.dirname(os.path.abspath(__file__)))
REPO = os.environ.get("VERIF_REPO", "/repo")
WORK = os.path.join(VERIF, ".work")
# Development aid: VERIF_REPO=<dir> points the checks at another checkout (a scratch worktree with a
# seeded change applied) without touching /repo; evidence/replays then go under .work so that the
# committed evidence is only ever written by runs against /repo itself.
ALT = REPO != "/repo"
ALT_TAG = re.sub(r"[^A-Za-z0-9]+", "_", REPO).strip("_") if ALT else ""
EVIDENCE_DIR = os.path.join(WORK, "evidence-" + ALT_TAG) if ALT else os.path.join(VERIF, "evidence")
REPLAY_DIR = os.path.join(WORK, "replays-" + ALT_TAG) if ALT else os.path.join(VERIF, "replays")
KNOWN_FINDINGS = os.path.join(VERIF, "known_findings.json")
HOOK_CFG = "alexhuszagh_rust_lexical_verif"

OFFLINE_ENV = {
    "CARGO_NET_OFFLINE": "true",
    "GOPROXY": "off",
    "PIP_NO_INDEX": "1",
}


def env(extra=None):
    e = dict(os.environ)
    e.update(OFFLINE_ENV)
    if extra:
        e.update(extra)
    return e


def seed():
    try:
        return int(os.environ.get("VERIF_SEED", "0"))
    except ValueError:
        return 0


def log(msg):
    sys.stderr.write(msg + "\n")
    sys.stderr.flush()


def run(cmd, cwd=None, timeout=None, mem_gb=None, extra_env=None, stdout_path=None, stdin=None):
    """Run a command; returns (rc, stdout+stderr text, wall seconds). rc None = timed out."""

    def limit():
        os.setsid()
        if mem_gb:
            b = int(mem_gb * (1 << 30))
            resource.setrlimit(resource.RLIMIT_AS, (b, b))

    t0 = time.time()
    out_f = open(stdout_path, "w") if stdout_path else subprocess.PIPE
    try:
        p = subprocess.Popen(
            cmd,
            cwd=cwd,
            env=env(extra_env),
            stdout=out_f,
            stderr=subprocess.STDOUT,
            stdin=subprocess.PIPE if stdin is not None else subprocess.DEVNULL,
            preexec_fn=limit,
            text=True,
        )
        try:
            out, _ = p.communicate(input=stdin, timeout=timeout)
            rc = p.returncode
        except subprocess.TimeoutExpired:
            try:
                os.killpg(p.pid, 9)
            except ProcessLookupError:
                pass
            out, _ = p.communicate()
            rc = None
    finally:
        if stdout_path:
            out_f.close()
    if stdout_path:
        with open(stdout_path, errors="replace") as f:
            out = f.read()
    return rc, out or "", time.time() - t0


def load_known_findings():
    if not os.path.exists(KNOWN_FINDINGS):
        return []
    with open(KNOWN_FINDINGS) as f:
        data = json.load(f)
    return data.get("findings", [])


def match_finding(findings, prop, unit, desc):
    """Return the *open* finding entry that suppresses this failure, if any.

    A finding is keyed by property, a regex on the harness/obligation id and a
    regex on the failed-check description (its role), never by run-time data.
    `fixed` entries never suppress anything.
    """
    for f in findings:
        if f.get("status") != "open":
            continue
        if f.get("property") != prop:
            continue
        if not re.search(f.get("unit_regex", ".*"), unit):
            continue
        if not re.search(f.get("check_regex", ".*"), desc):
            continue
        return f
    return None


def write_evidence(prop, tier, level, coverage, assumptions, wall_s, violations):
    os.makedirs(EVIDENCE_DIR, exist_ok=True)
    ev = {
        "property_id": prop,
        "tier": tier,
        "seed": seed(),
        "level": level,
        "coverage": coverage,
        "assumptions": assumptions,
        "wall_s": round(wall_s, 2),
        "violations": violations,
    }
    path = os.path.join(EVIDENCE_DIR, prop + ".json")
    tmp = path + ".tmp"
    with open(tmp, "w") as f:
        json.dump(ev, f, indent=1, sort_keys=False)
        f.write("\n")
    os.replace(tmp, path)
    return path


def repo_head():
    rc, out, _ = run(["git", "-C", REPO, "rev-parse", "--short", "HEAD"])
    head = out.strip() if rc == 0 else "unknown"
    rc, out, _ = run(["git", "-C", REPO, "status", "--porcelain", "--untracked-files=no"])
    dirty = bool(out.strip()) if rc == 0 else False
    return head + ("+dirty" if dirty else "")
