"""Re-execute a stored counterexample against the real code."""
import json
import sys

from . import kani as K


def replay(prop, path):
    if path.endswith(".rs"):
        ok, text = K.run_playback_file(path)
        print(text)
        if ok:
            print("REPRODUCED property=%s replay=%s" % (prop, path))
            return 1
        if ok is False:
            print("NOT-REPRODUCED property=%s replay=%s" % (prop, path))
            return 0
        return 2
    if path.endswith(".json"):
        from . import smtrun
        return smtrun.replay_file(prop, path)
    print(open(path).read())
    return 2
