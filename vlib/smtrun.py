"""Glue between the check driver and Engine S (/verif/smt).

MIR is dumped once per run (from /repo's current sources); kernels are then executed and
discharged in a pool of worker processes (each worker owns its z3 context)."""
import concurrent.futures as cf
import json
import os
import pickle
import sys
import time

from .common import VERIF, REPLAY_DIR, WORK, seed, log

sys.path.insert(0, os.path.join(VERIF, "smt"))

_P = None
_FEATS = ()


def _init_worker(pickle_path, feats):
    global _P, _FEATS
    sys.path.insert(0, os.path.join(VERIF, "smt"))
    with open(pickle_path, "rb") as f:
        _P = pickle.load(f)
    _P._const_cache = {}
    _FEATS = tuple(feats)


def _run_kernel(args):
    kid, prop, sd, solver_threads = args
    import engine
    import kernels
    from mirexec import Unsupported
    P, feats = _P, _FEATS
    k = kernels.get(kid)
    rec = {"id": kid, "desc": k.desc, "queries": 0, "solver_s": 0.0, "status": "unsat", "solver": "",
           "functions": k.funcs, "witness_ok": True, "validated": 0}
    t1 = time.time()
    try:
        res = k.symbolic(P)
    except Unsupported as e:
        rec["status"] = "unsupported MIR construct: %s" % e
        return rec
    except Exception as e:  # noqa
        rec["status"] = "encoder error: %r" % e
        return rec
    rec["paths"] = res.paths
    rec["exec_s"] = round(res.exec_s, 2)
    # translation validation: encoding vs the real function on concrete inputs
    try:
        cases = k.concrete_cases(sd)
        if cases:
            nat = engine.native_batch(feats, k.native_name(), cases)
            mism = []
            for c, no in zip(cases, nat):
                io = k.interp(P, c)
                if io != no:
                    mism.append((c, io, no))
            rec["validated"] = len(cases) - len(mism)
            if mism:
                rec["status"] = "translator disagrees with the real function on %d concrete inputs, e.g. %r" % (len(mism), mism[0])
                return rec
    except Exception as e:  # noqa
        rec["status"] = "translation validation failed to run: %r" % e
        return rec
    results = engine.discharge(res.queries, jobs=solver_threads)
    solvers = {}
    bad = None
    unknown = []
    for q, r in results:
        rec["queries"] += 1
        rec["solver_s"] += r["solver_s"]
        solvers[r["solver"] or "none"] = solvers.get(r["solver"] or "none", 0) + 1
        if q.expect == "sat":
            if r["status"] != "sat":
                rec["witness_ok"] = False
            continue
        if r["status"] == "sat" and bad is None:
            bad = (q, r)
        elif r["status"] not in ("unsat", "sat"):
            unknown.append(q.qid + " " + str(r["tried"]))
    rec["solver"] = ",".join("%s:%d" % kv for kv in sorted(solvers.items()))
    rec["solver_s"] = round(rec["solver_s"], 2)
    rec["wall_s"] = round(time.time() - t1, 2)
    if bad:
        q, r = bad
        rec["status"] = "sat"
        model = r["model"] or {}
        rec["model_text"] = "%s: %s; model %s" % (q.qid, q.desc, json.dumps(model))
        rec["desc"] = k.desc + " | failing query: " + q.desc
        try:
            no = engine.native(feats, k.native_name(), k.native_args(model))
            rec["native_output"] = no
            rec["replayed"] = bool(k.violates(model, no))
        except Exception as e:  # noqa
            rec["replayed"] = None
            rec["native_output"] = "replay error %r" % e
        d = os.path.join(REPLAY_DIR, prop)
        os.makedirs(d, exist_ok=True)
        rf = os.path.join(d, kid.replace("/", "_") + ".json")
        with open(rf, "w") as f:
            json.dump({"property": prop, "kernel": kid, "features": list(feats), "model": model,
                       "query": q.qid, "query_desc": q.desc, "native_output": rec.get("native_output")}, f, indent=1)
        rec["replay_file"] = rf
    elif unknown:
        rec["status"] = "unknown (solver timeout/inconclusive) on %d queries: %s" % (len(unknown), "; ".join(unknown[:2]))
    return rec


def run_obligations(prop, tier, plan):
    """plan: {"features": (...), "kernels": [kernel ids], "workers": n}"""
    import engine

    out = {"obligations": [], "traces_validated": 0, "errors": []}
    feats = tuple(plan.get("features", ()))
    t0 = time.time()
    try:
        P = engine.dump_mir(feats)
        engine.build_driver(feats)
    except Exception as e:  # noqa
        out["errors"].append("MIR dump / driver build failed: %s" % str(e)[-800:])
        return out
    log("[%s] engine S: MIR dumped from /repo in %.1fs (%d items)" % (prop, time.time() - t0, len(P.fns)))
    os.makedirs(WORK, exist_ok=True)
    pk = os.path.join(WORK, "mir-%s-%d.pickle" % ("-".join(feats) or "default", os.getpid()))
    P._const_cache = {}
    with open(pk, "wb") as f:
        pickle.dump(P, f)
    kids = list(plan["kernels"])
    workers = max(1, min(int(plan.get("workers", 6)), len(kids)))
    threads = 6   # solver subprocesses per worker; workers that run out of kernels leave cores to the stragglers
    try:
        import multiprocessing
        # spawn (not fork): the driver runs Kani groups in other threads at the same time
        with cf.ProcessPoolExecutor(workers, mp_context=multiprocessing.get_context("spawn"),
                                    initializer=_init_worker, initargs=(pk, feats)) as ex:
            for rec in ex.map(_run_kernel, [(k, prop, seed(), threads) for k in kids]):
                out["obligations"].append(rec)
                out["traces_validated"] += rec.get("validated", 0)
    finally:
        try:
            os.unlink(pk)
        except OSError:
            pass
    return out


def replay_file(prop, path):
    import engine
    import kernels
    with open(path) as f:
        d = json.load(f)
    k = kernels.get(d["kernel"])
    feats = tuple(d.get("features", ()))
    no = engine.native(feats, k.native_name(), k.native_args(d["model"]))
    print("kernel %s inputs %s -> real code output: %s" % (d["kernel"], k.native_args(d["model"]), no))
    if k.violates(d["model"], no):
        print("REPRODUCED property=%s replay=%s" % (prop, path))
        return 1
    print("NOT-REPRODUCED property=%s replay=%s" % (prop, path))
    return 0
