"""Glue between the check driver and Engine S (/verif/smt)."""
import json
import os
import sys
import time

from .common import VERIF, REPLAY_DIR, seed, log

sys.path.insert(0, os.path.join(VERIF, "smt"))


def run_obligations(prop, tier, plan):
    """plan: {"features": (...), "kernels": [kernel ids], "validate": n_cases}"""
    import engine
    import kernels
    from mirexec import Unsupported

    out = {"obligations": [], "traces_validated": 0, "errors": []}
    feats = tuple(plan.get("features", ()))
    t0 = time.time()
    try:
        P = engine.dump_mir(feats)
    except Exception as e:  # noqa
        out["errors"].append("MIR dump failed: %s" % str(e)[-800:])
        return out
    log("[%s] engine S: MIR dumped from /repo in %.1fs (%d items)" % (prop, time.time() - t0, len(P.fns)))
    for kid in plan["kernels"]:
        k = kernels.KERNELS[kid]
        rec = {"id": kid, "desc": k.desc, "queries": 0, "solver_s": 0.0, "status": "unsat", "solver": "",
               "functions": k.funcs, "witness_ok": True}
        t1 = time.time()
        try:
            res = k.symbolic(P)
        except Unsupported as e:
            rec["status"] = "unsupported MIR construct: %s" % e
            out["obligations"].append(rec)
            continue
        except Exception as e:  # noqa
            rec["status"] = "encoder error: %r" % e
            out["obligations"].append(rec)
            continue
        rec["paths"] = res.paths
        rec["exec_s"] = round(res.exec_s, 2)
        # translation validation: encoding vs the real function on concrete inputs
        try:
            cases = k.concrete_cases(seed())
            nat = engine.native_batch(feats, k.native_name(), cases)
            mism = []
            for c, no in zip(cases, nat):
                io = k.interp(P, c)
                if io != no:
                    mism.append((c, io, no))
            rec["validated"] = len(cases)
            out["traces_validated"] += len(cases) - len(mism)
            if mism:
                rec["status"] = "translator disagrees with the real function on %d concrete inputs, e.g. %r" % (len(mism), mism[0])
                out["obligations"].append(rec)
                continue
        except Exception as e:  # noqa
            rec["status"] = "translation validation failed to run: %r" % e
            out["obligations"].append(rec)
            continue
        results = engine.discharge(res.queries)
        solvers = {}
        bad = None
        unknown = []
        for q, r in results:
            rec["queries"] += 1
            rec["solver_s"] += r["solver_s"]
            solvers[r["solver"] or "none"] = solvers.get(r["solver"] or "none", 0) + 1
            if q.expect == "sat":
                if r["status"] != "sat":
                    rec["witness_ok"] = False
                continue
            if r["status"] == "sat" and bad is None:
                bad = (q, r)
            elif r["status"] not in ("unsat", "sat"):
                unknown.append(q.qid + " " + str(r["tried"]))
        rec["solver"] = ",".join("%s:%d" % kv for kv in sorted(solvers.items()))
        rec["solver_s"] = round(rec["solver_s"], 2)
        rec["wall_s"] = round(time.time() - t1, 2)
        if bad:
            q, r = bad
            rec["status"] = "sat"
            model = r["model"] or {}
            rec["model_text"] = "%s: %s; model %s" % (q.qid, q.desc, json.dumps(model))
            rec["desc"] = k.desc + " | failing query: " + q.desc
            # replay against the real code
            try:
                no = engine.native(feats, k.native_name(), k.native_args(model))
                rec["native_output"] = no
                rec["replayed"] = bool(k.violates(model, no))
            except Exception as e:  # noqa
                rec["replayed"] = None
                rec["native_output"] = "replay error %r" % e
            d = os.path.join(REPLAY_DIR, prop)
            os.makedirs(d, exist_ok=True)
            rf = os.path.join(d, kid + ".json")
            with open(rf, "w") as f:
                json.dump({"property": prop, "kernel": kid, "features": list(feats), "model": model,
                           "query": q.qid, "query_desc": q.desc, "native_output": rec.get("native_output")}, f, indent=1)
            rec["replay_file"] = rf
        elif unknown:
            rec["status"] = "unknown (solver timeout/inconclusive) on %d queries: %s" % (len(unknown), "; ".join(unknown[:2]))
        out["obligations"].append(rec)
    return out


def replay_file(prop, path):
    import engine
    import kernels
    with open(path) as f:
        d = json.load(f)
    k = kernels.KERNELS[d["kernel"]]
    feats = tuple(d.get("features", ()))
    no = engine.native(feats, k.native_name(), k.native_args(d["model"]))
    print("kernel %s inputs %s -> real code output: %s" % (d["kernel"], k.native_args(d["model"]), no))
    if k.violates(d["model"], no):
        print("REPRODUCED property=%s replay=%s" % (prop, path))
        return 1
    print("NOT-REPRODUCED property=%s replay=%s" % (prop, path))
    return 0
