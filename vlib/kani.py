"""Engine K: run Kani proof harnesses from /verif/kani against /repo's working tree."""
import json
import math
import os
import re
import shutil
import time

from .common import WORK, VERIF, REPO, REPLAY_DIR, ALT, ALT_TAG, run, log

KANI_CRATE = os.path.join(VERIF, "kani")


def _alt_crate():
    """Copy of the harness crate whose path dependencies point at $VERIF_REPO."""
    dst = os.path.join(WORK, "kani-crate-" + ALT_TAG)
    if os.environ.get("VERIF_ALT_CRATE_READY") == dst:
        return dst      # worker processes of this run: the copy is already there and in use
    os.environ["VERIF_ALT_CRATE_READY"] = dst
    shutil.rmtree(dst, ignore_errors=True)
    shutil.copytree(KANI_CRATE, dst, ignore=shutil.ignore_patterns("target"))
    ct = os.path.join(dst, "Cargo.toml")
    with open(ct) as f:
        t = f.read()
    with open(ct, "w") as f:
        f.write(t.replace('"/repo/', '"%s/' % REPO.rstrip("/")))
    lock = os.path.join(dst, "Cargo.lock")
    if os.path.exists(lock):
        os.unlink(lock)
    shutil.copy(os.path.join(REPO, "Cargo.lock"), lock)
    return dst


if ALT:
    KANI_CRATE = _alt_crate()
# /repo is always compiled with the verification hooks on (one add-only hook:
# lexical_util::format::verif_format_error). Constant flags keep the build cache valid.
HOOK_ENV = {"RUSTFLAGS": "--cfg alexhuszagh_rust_lexical_verif"}

# Build configurations of lexical the harness crate can be compiled under.
FEATURE_SETS = {
    "D": [],
    "C": ["compact"],
    "P": ["power-of-two"],
    "R": ["radix"],
    "F": ["format"],
    "RF": ["radix", "format"],
    "PF": ["power-of-two", "format"],
    "CRF": ["compact", "radix", "format"],
    "CF": ["compact", "format"],
    "S": ["std"],
    "SRF": ["std", "radix", "format"],
}


def target_dir(fs):
    return os.path.join(WORK, "kani-" + fs + ("-" + ALT_TAG if ALT else ""))


def ensure_lock():
    """The harness crate pins the same dependency versions as /repo."""
    dst = os.path.join(KANI_CRATE, "Cargo.lock")
    if not os.path.exists(dst):
        shutil.copy(os.path.join(REPO, "Cargo.lock"), dst)


class HarnessResult:
    def __init__(self, name):
        self.name = name
        self.status = "missing"  # success | failure | timeout | error | missing
        self.failed = []  # [(category, description, location)]
        self.unwind_failed = []
        self.covers_sat = []
        self.covers_unsat = []
        self.n_checks = 0
        self.n_passed = 0
        self.solver_s = 0.0
        self.wall_s = 0.0
        self.note = ""

    def as_dict(self):
        return {
            "harness": self.name,
            "status": self.status,
            "checks": self.n_checks,
            "passed": self.n_passed,
            "failed": [f[1] for f in self.failed],
            "covers_satisfied": len(self.covers_sat),
            "covers_unsatisfiable": self.covers_unsat,
            "solver_s": round(self.solver_s, 2),
            "wall_s": round(self.wall_s, 2),
        }


def _loc(c):
    l = c.get("location") or {}
    return "%s:%s in %s" % (l.get("file", "?"), l.get("line", "?"), c.get("function", "?"))


def run_group(fs, harnesses, tag, timeout_s=600, jobs=8, mem_gb=10, stubbing=False, extra_args=None):
    """Verify `harnesses` (fully qualified names) under feature set `fs`.

    One cargo-kani invocation: the harness crate and the /repo crates are
    rebuilt from the current sources, then each harness is decided by CBMC.
    Returns {name: HarnessResult}.
    """
    ensure_lock()
    os.makedirs(WORK, exist_ok=True)
    outdir = os.path.join(WORK, "out", tag)
    shutil.rmtree(outdir, ignore_errors=True)
    os.makedirs(outdir)
    jpath = os.path.join(outdir, "result.json")
    cmd = ["cargo", "kani", "--target-dir", target_dir(fs)]
    feats = FEATURE_SETS[fs]
    if feats:
        cmd += ["--features", ",".join(feats)]
    cmd += ["--exact"]
    for h in harnesses:
        cmd += ["--harness", h]
    jobs = max(1, min(jobs, len(harnesses)))
    cmd += ["-j", str(jobs), "--output-format", "terse", "-Z", "unstable-options",
            "--harness-timeout", str(int(timeout_s)), "--export-json", jpath]
    if stubbing:
        cmd += ["-Z", "stubbing"]
    if extra_args:
        cmd += extra_args
    overall = 900 + math.ceil(len(harnesses) / jobs) * (timeout_s + 30)
    logp = os.path.join(outdir, "kani.log")
    t0 = time.time()
    rc, out, wall = run(cmd, cwd=KANI_CRATE, timeout=overall, mem_gb=mem_gb, stdout_path=logp, extra_env=HOOK_ENV)
    results = {h: HarnessResult(h) for h in harnesses}
    info = {"cmd": " ".join(cmd), "rc": rc, "wall_s": wall, "log": logp, "compile_error": False}
    if "error: could not compile" in out or "Failed to execute cargo" in out:
        info["compile_error"] = True
        errs = [l for l in out.splitlines() if l.startswith("error")]
        info["errors"] = errs[:10]
        for r in results.values():
            r.status = "error"
            r.note = "compile error"
        return results, info
    if "Failed to match the following harness" in out:
        for r in results.values():
            r.status = "error"
            r.note = "harness name not found"
        info["compile_error"] = True
        info["errors"] = ["harness filter did not match"]
        return results, info
    data = None
    if os.path.exists(jpath):
        try:
            with open(jpath) as f:
                data = json.load(f)
        except Exception as e:  # noqa
            info["json_error"] = str(e)
    if data:
        stats = {c["harness_id"]: (c.get("cbmc_stats") or {}) for c in (data.get("cbmc") or []) if c}
        for r in data.get("verification_results", {}).get("results", []):
            h = r["harness_id"]
            if h not in results:
                continue
            hr = results[h]
            hr.wall_s = r.get("duration_ms", 0) / 1000.0
            hr.solver_s = float(stats.get(h, {}).get("runtime_solver_s", 0.0) or 0.0)
            st = r.get("status")
            checks = r.get("checks") or []
            hr.n_checks = len(checks)
            n_error = 0
            for c in checks:
                cs = c.get("status")
                cat = c.get("category", "")
                if cat == "cover" or cs in ("Satisfied", "Unsatisfiable"):
                    if cs == "Satisfied":
                        hr.covers_sat.append(c.get("description", ""))
                    elif cs == "Unsatisfiable":
                        hr.covers_unsat.append(c.get("description", ""))
                    else:
                        hr.covers_unsat.append(c.get("description", "") + " [" + str(cs) + "]")
                    continue
                if cs == "Error":
                    n_error += 1
                if cs == "Success":
                    hr.n_passed += 1
                elif cs == "Failure":
                    if cat == "unwind":
                        hr.unwind_failed.append((cat, c.get("description", ""), _loc(c)))
                    else:
                        hr.failed.append((cat, c.get("description", ""), _loc(c)))
            if st == "Success":
                hr.status = "success"
            elif st == "Failure":
                hr.status = "failure"
            else:
                hr.status = "error"
                hr.note = str(st)
            # a harness killed by the timeout/oom has no checks at all
            if hr.status == "failure" and not checks:
                hr.status = "timeout"
                hr.note = "no result (timeout or solver killed)"
            # CBMC reports every property as ERROR when the solver died (typically out of memory)
            if n_error and not hr.failed and not hr.unwind_failed:
                hr.status = "error"
                hr.note = "%d checks in status ERROR (solver out of memory / aborted)" % n_error
                hr.covers_unsat = []
    # Fall back on the log for harnesses the JSON does not describe.
    for h, hr in results.items():
        if hr.status == "missing":
            if re.search(r"timed out|TIMEOUT", out):
                hr.status = "timeout"
            hr.note = hr.note or "no result in kani output"
    return results, info


def playback(fs, harness, tag, stubbing=False):
    """Ask Kani for a concrete counterexample of `harness` and run it natively.

    Returns (reproduced: bool|None, replay_file, text). None = could not build a replay.
    """
    cmd = ["cargo", "kani", "--target-dir", target_dir(fs)]
    feats = FEATURE_SETS[fs]
    if feats:
        cmd += ["--features", ",".join(feats)]
    cmd += ["--exact", "--harness", harness, "-Z", "concrete-playback", "--concrete-playback=print"]
    if stubbing:
        cmd += ["-Z", "stubbing"]
    rc, out, _ = run(cmd, cwd=KANI_CRATE, timeout=3600, mem_gb=16, extra_env=HOOK_ENV)
    tests = re.findall(r"```\n(.*?)```", out, re.S)
    if not tests:
        return None, None, "kani produced no concrete playback test"
    os.makedirs(os.path.join(REPLAY_DIR, tag), exist_ok=True)
    rfile = os.path.join(REPLAY_DIR, tag, harness.replace("::", "__") + ".rs")
    with open(rfile, "w") as f:
        f.write("// feature-set: %s\n// harness: %s\n" % (fs, harness))
        f.write("\n".join(tests))
    ok, text = run_playback_file(rfile)
    return ok, rfile, text


def run_playback_file(rfile):
    """Execute a stored concrete-playback test against the real code (dev profile)."""
    with open(rfile) as f:
        src = f.read()
    m = re.search(r"// feature-set: (\w+)\n// harness: (\S+)", src)
    if not m:
        return None, "not a replay file"
    fs, harness = m.group(1), m.group(2)
    mod = harness.split("::")[0]
    scratch = os.path.join(WORK, "replay-crate")
    shutil.rmtree(scratch, ignore_errors=True)
    shutil.copytree(KANI_CRATE, scratch, ignore=shutil.ignore_patterns("target"))
    modfile = os.path.join(scratch, "src", mod + ".rs")
    body = src.split("\n", 2)[2]
    with open(modfile, "a") as f:
        f.write("\n" + body + "\n")
    names = re.findall(r"fn (kani_concrete_playback_\w+)", body)
    cmd = ["cargo", "kani", "playback", "-Z", "concrete-playback"]
    feats = FEATURE_SETS[fs]
    if feats:
        cmd += ["--features", ",".join(feats)]
    cmd += ["--", "kani_concrete_playback"]
    rc, out, _ = run(cmd, cwd=scratch, timeout=1800, extra_env=dict(HOOK_ENV, CARGO_TARGET_DIR=os.path.join(WORK, "replay-target-" + fs)))
    shutil.rmtree(scratch, ignore_errors=True)
    if "test result: FAILED" in out or "panicked at" in out:
        return True, out[-3000:]
    if "test result: ok" in out:
        return False, out[-3000:]
    return None, out[-3000:]
