#!/bin/bash
# Offline setup after a fresh restore: pre-build the harness crate's dependency
# graph for the build configurations the quick checks use, so that the first
# check does not pay for it. Everything is rebuilt from /repo's working tree
# again by each check; this only warms caches under /verif/.work.
set -u
cd "$(dirname "$0")"
export CARGO_NET_OFFLINE=true
mkdir -p .work
[ -f kani/Cargo.lock ] || cp /repo/Cargo.lock kani/Cargo.lock
python3 - <<'PY'
import sys, os
sys.path.insert(0, os.getcwd())
from vlib import kani as K
from vlib.common import run
import concurrent.futures as cf
def warm(fs):
    cmd = ["cargo", "kani", "--target-dir", K.target_dir(fs), "--only-codegen", "--exact", "--harness", "smoke::smoke_pass"]
    if K.FEATURE_SETS[fs]:
        cmd += ["--features", ",".join(K.FEATURE_SETS[fs])]
    rc, out, wall = run(cmd, cwd=K.KANI_CRATE, timeout=1800, extra_env=K.HOOK_ENV)
    return fs, rc, wall, out[-500:] if rc else ""
sets = ["D", "C", "P", "R", "F", "RF", "CRF", "S"]
with cf.ThreadPoolExecutor(4) as ex:
    for fs, rc, wall, tail in ex.map(warm, sets):
        print("warm %s rc=%s %.0fs %s" % (fs, rc, wall, tail))
PY
exit 0
