use lexical_parse_float::float::ExtendedFloat80;
pub fn compute_float_f64(q: i64, w: u64, lossy: bool) -> ExtendedFloat80 {
    lexical_parse_float::lemire::compute_float::<f64>(q, w, lossy)
}
pub fn from_u32(n: u32, buf: &mut [u8]) -> usize {
    lexical_write_integer::jeaiii::from_u32(n, buf)
}
