import re, sys, os
from z3 import *
src=open('/repo/lexical-write-float/src/table_dragonbox.rs').read()
blk=src[src.index('DRAGONBOX32_POWERS_OF_FIVE: ['):]
blk=blk[:blk.index('];')]
tab=[int(x,16) for x in re.findall(r'0x([0-9a-f]+),\s*// 5\^',blk)]
assert len(tab)==78, len(tab)
SM=-31
def w32(x): return ((x+2**31)%2**32)-2**31
def fl10p2(q): return w32(q*315653)>>20
def fl2p10(q): return w32(q*1741647)>>19
def fl5p2(q): return w32(q*225799)>>19
KAPPA=1
FC_PM_HALF_LOWER=-KAPPA-fl5p2(KAPPA)
DIV_BY_5_THRESHOLD=fl2p10(KAPPA+1)
def build(E, KB, hi_pat=0):
    W=288
    m=BitVec('m',64)
    cons=[UGE(m,BitVecVal(1<<23,64)), ULT(m,BitVecVal(1<<24,64)), (m & 0x7fffff)!=0]
    if KB<23:
        cons.append(LShR(m & 0x7fffff, KB)==hi_pat)
    is_even=(m&1)==0
    minus_k=fl10p2(E)-KAPPA
    pow5=tab[-minus_k-SM]
    beta=E+fl2p10(-minus_k)
    assert 1<=beta<64
    two_fc=m<<1
    deltai=(pow5>>(63-beta)) & 0xffffffff
    def compute_mul(u):
        r=Extract(127,64, ZeroExt(64,u<<32)*BitVecVal(pow5,128))
        return LShR(r,32), Extract(31,0,r)==0
    def mul_parity(two_f):
        r=two_f*BitVecVal(pow5,64)
        parity=(LShR(r,64-beta)&1)!=0
        is_int=Extract(31,0,LShR(r,32-beta))==0   # r >> (32-beta) as u64 == 0? check source: is_integer = r >> (32-beta); == 0
        return parity, LShR(r,32-beta)==0
    zi,is_z_int=compute_mul((two_fc|1)<<beta)
    big=100; small=10
    zi32=Extract(31,0,zi)
    sig=ZeroExt(32,Extract(31,0,LShR(ZeroExt(32,zi32)*BitVecVal(1374389535,64),37)))
    r=Extract(31,0, zi - BitVecVal(big,64)*sig)
    D=BitVecVal(deltai,32)
    # branch logic
    include_right=is_even; include_left=is_even
    # case r<deltai
    c1=ULT(r,D)
    c1_special=And(r==0, Not(include_right), is_z_int)
    two_fl=two_fc-1
    p_fl, x_int = mul_parity(two_fl)
    if E<FC_PM_HALF_LOWER or E>DIV_BY_5_THRESHOLD:
        eq_short = p_fl
    else:
        eq_short = If(Not(include_left), p_fl, Or(p_fl, x_int))
    short = If(c1, Not(c1_special), If(UGT(r,D), False, eq_short))
    sig_s = sig   # short-circuit significand (before trimming), exp = minus_k+KAPPA+1
    # long path
    sig_l0 = If(And(c1,c1_special), sig-1, sig)
    r_l = If(And(c1,c1_special), BitVecVal(big,32), r)
    sig_l = sig_l0*10
    dist = r_l - BitVecVal(deltai//2,32) + BitVecVal(small//2,32)
    approx_y_parity = ((dist ^ BitVecVal(small//2,32)) & 1)!=0
    n = dist*BitVecVal(6554,32)
    divisible = ULT(n & 0xffff, BitVecVal(6554,32))
    distq = LShR(n,16)
    sig_l = sig_l + ZeroExt(32,distq)
    y_par, y_int = mul_parity(two_fc)
    dec = And(divisible, Or(y_par!=approx_y_parity, And(y_int, (sig_l&1)!=0)))
    sig_l = If(dec, sig_l-1, sig_l)
    # oracle
    def oracle(Dg, k):
        s2=max(0,-E); s10=max(0,-k)
        mw=ZeroExt(W-64,m); dw=ZeroExt(W-64,Dg)
        cL=(1<<(E+s2))*(10**s10)
        cX=2*(10**(k+s10))*(1<<s2)
        L=(2*mw-1)*BitVecVal(cL,W); U=(2*mw+1)*BitVecVal(cL,W); C=(2*mw)*BitVecVal(cL,W)
        X=dw*BitVecVal(cX,W)
        rt=Or(And(ULT(L,X),ULT(X,U)), And(is_even, Or(X==L,X==U)))
        diff=If(UGT(X,C),X-C,C-X)
        closest=ULE(diff,BitVecVal(cX//2,W))
        d2=BitVec('d2',64)
        X2=ZeroExt(W-64,d2)*BitVecVal(cX*10,W)
        inside=Or(And(ULT(L,X2),ULT(X2,U)), And(is_even, Or(X2==L,X2==U)))
        shorter=And(ULT(d2,BitVecVal(1<<40,64)), inside)
        return rt, closest, shorter
    rt_s,cl_s,sh_s=oracle(sig_s, minus_k+KAPPA+1)
    rt_l,cl_l,sh_l=oracle(sig_l, minus_k+KAPPA)
    ok_s=And(rt_s, cl_s, Or(URem(sig_s,10)==0, Not(sh_s)))
    ok_l=And(rt_l, cl_l, Not(sh_l))
    s=Solver(); s.add(*cons); s.add(Not(If(short, ok_s, ok_l)))
    return s
E=int(sys.argv[1]); KB=int(sys.argv[2])
s=build(E,KB, int(sys.argv[3]) if len(sys.argv)>3 else 0)
open(f'dbx_{E}_{KB}.smt2','w').write("(set-logic QF_BV)\n"+s.to_smt2().replace('(set-info :status unknown)',''))
