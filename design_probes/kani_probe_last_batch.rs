#![allow(unused)]
#[cfg(kani)]
mod h {
    use lexical_core as lc;
    use lexical_parse_float::float::{ExtendedFloat80, LemireFloat, RawFloat};
    use lexical_parse_float::number::Number;
    use lexical_util::format::NumberFormatBuilder;
    const STD: u128 = lexical_util::format::STANDARD;

    fn det(num: &Number, mb: i32, inf: i32) -> ExtendedFloat80 {
        let mant = num.mantissa & ((1u64 << mb) - 1);
        let e = (num.exponent as i32) & 0x3f;
        ExtendedFloat80 { mant, exp: e }
    }
    fn stub_moderate<F: LemireFloat, const FORMAT: u128>(num: &Number, lossy: bool) -> ExtendedFloat80 {
        det(num, F::MANTISSA_SIZE, F::INFINITE_POWER)
    }
    fn stub_slow<F: LemireFloat, const FORMAT: u128>(num: Number, fp: ExtendedFloat80) -> ExtendedFloat80 { fp }
    fn stub_fast<'a, F: RawFloat, const FORMAT: u128>(num: &Number<'a>) -> Option<F> where 'a: 'a { None }

    fn is_d(c: u8) -> bool { c >= b'0' && c <= b'9' }
    fn ref_partial(s: &[u8]) -> Option<usize> {
        let mut i = 0;
        if i < s.len() && (s[i] == b'+' || s[i] == b'-') { i += 1; }
        let mut nd = 0;
        while i < s.len() && is_d(s[i]) { i += 1; nd += 1; }
        if i < s.len() && s[i] == b'.' {
            i += 1;
            while i < s.len() && is_d(s[i]) { i += 1; nd += 1; }
        }
        if nd == 0 { return None; }
        if i < s.len() && (s[i] == b'e' || s[i] == b'E') {
            i += 1;
            if i < s.len() && (s[i] == b'+' || s[i] == b'-') { i += 1; }
            let st = i;
            while i < s.len() && is_d(s[i]) { i += 1; }
            if i == st { return None; }
        }
        Some(i)
    }

    #[kani::proof]
    #[kani::unwind(7)]
    #[kani::stub(lexical_parse_float::parse::moderate_path, stub_moderate)]
    #[kani::stub(lexical_parse_float::parse::slow_path, stub_slow)]
    #[kani::stub(lexical_parse_float::number::Number::try_fast_path, stub_fast)]
    fn api_pf32_5() {
        let buf: [u8; 5] = kani::any();
        let len: usize = kani::any();
        kani::assume(len <= 5);
        let s = &buf[..len];
        let mut k = 0;
        while k < 5 { let c = buf[k]; kani::assume(c != b'n' && c != b'N' && c != b'i' && c != b'I'); k += 1; }
        let p = lc::parse_partial::<f32>(s);
        let c = lc::parse::<f32>(s);
        let r = ref_partial(s);
        match (p, r) {
            (Ok((v, n)), Some(m)) => { assert!(n == m); assert!(!v.is_nan()); assert!(c.is_ok() == (n == len)); if n == len { assert!(c.unwrap().to_bits() == v.to_bits()); } }
            (Err(_), None) => { assert!(c.is_err()); }
            _ => { assert!(false); }
        }
    }

    // C18 without hook, default features: valid <=> reference
    fn ref_valid_default(f: u128) -> bool {
        let flags = f as u64;
        let sep = (f >> 64) as u8; let prefix = (f >> 88) as u8; let suffix = (f >> 96) as u8;
        let mr = (f >> 104) as u8; let eb = (f >> 112) as u8; let er = (f >> 120) as u8;
        mr == 10 && (eb == 0 || eb == 10) && (er == 0 || er == 10) && sep == 0 && prefix == 0 && suffix == 0
    }
    #[kani::proof]
    fn fmt_rebuild_cost() {
        let f: u128 = kani::any();
        let b = NumberFormatBuilder::rebuild(f);
        let g = b.build_unchecked();
        kani::cover!(g == f);
        kani::cover!(g != f);
        if ref_valid_default(f) { kani::cover!(true); }
    }

    // K2: u32 digits-only frontier
    #[kani::proof]
    #[kani::unwind(14)]
    fn k2_u32_12() {
        let buf: [u8; 12] = kani::any();
        let len: usize = kani::any();
        kani::assume(len >= 1 && len <= 12);
        let mut k = 0;
        while k < 12 { kani::assume(is_d(buf[k])); k += 1; }
        let s = &buf[..len];
        let got = lc::parse::<u32>(s);
        let mut v: u64 = 0; let mut ov: Option<usize> = None; let mut i = 0;
        while i < len { v = v * 10 + (s[i] - b'0') as u64; if v > u32::MAX as u64 { ov = Some(i); break; } i += 1; }
        match (got, ov) {
            (Ok(a), None) => assert!(a as u64 == v),
            (Err(lc::Error::Overflow(i)), Some(j)) => assert!(i == j),
            _ => { assert!(false); }
        }
    }

    // Dragonbox cube: low 12 bits symbolic
    use lexical_write_float::algorithm as dbx;
    const P10: [u64; 12] = [1,10,100,1000,10000,100000,1000000,10000000,100000000,1000000000,10000000000,100000000000];
    #[kani::proof]
    fn dbx_cube12() {
        let low: u32 = kani::any();
        kani::assume(low < (1 << 12));
        let mant: u32 = (0x2b5 << 12) | low;
        kani::assume(mant != 0);
        let f = f32::from_bits((127u32 << 23) | mant);
        let fp = dbx::to_decimal(f);
        let d = fp.mant; let k = fp.exp;
        assert!(k <= 0 && k >= -9);
        assert!(d > 0 && d < 1_000_000_000);
        let m = ((1u64 << 23) | mant as u64) as u128;
        let p = P10[(-k) as usize] as u128;
        let l = (2 * m - 1) * p; let u = (2 * m + 1) * p; let c = 2 * m * p;
        let x = 2 * (d as u128) * (1u128 << 23);
        let even = mant % 2 == 0;
        assert!((l < x && x < u) || (even && (x == l || x == u)));
        let diff = if x > c { x - c } else { c - x };
        assert!(diff <= (1u128 << 23));
        let d2: u32 = kani::any();
        let x2 = (d2 as u128) * 10 * (1u128 << 24);
        let inside = (l < x2 && x2 < u) || (even && (x2 == l || x2 == u));
        assert!(!inside);
    }
}
