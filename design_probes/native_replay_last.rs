use lexical_core as lc;
fn main() {
    // m = 0xf10200, E = 10 => f32 = m * 2^10 ; biased exponent = E + 150 = 160
    for m in [0xf10200u32, 0xf10201, 0xf101ff] {
        let bits = (160u32 << 23) | (m & 0x7fffff);
        let f = f32::from_bits(bits);
        let mut buf = [0u8; 64];
        let out = lc::write(f, &mut buf);
        let s = std::str::from_utf8(out).unwrap().to_string();
        let back: f32 = s.parse().unwrap();
        println!("bits={:#x} lexical={} std={:?} std_sci={:e} roundtrip_ok={}", bits, s, f, f, back.to_bits()==bits);
    }
}
