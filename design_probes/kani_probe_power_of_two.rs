#![allow(unused)]
#[cfg(kani)]
mod h {
    use lexical_core as lc;
    use lexical_parse_float::float::{ExtendedFloat80, extended_to_float};
    use lexical_parse_float::number::Number;
    use lexical_util::format::NumberFormatBuilder;
    const F16: u128 = NumberFormatBuilder::from_radix(16);

    // C05: binary parse core for radix 16, f64.
    #[kani::proof]
    fn bin16_f64() {
        let mantissa: u64 = kani::any();
        let exponent: i64 = kani::any();
        let many: bool = kani::any();
        kani::assume(mantissa != 0);
        kani::assume(exponent >= -300 && exponent <= 300);
        let num = Number { exponent, mantissa, is_negative: false, many_digits: many, integer: &[], fraction: None };
        let fp = lexical_parse_float::binary::binary::<f64, F16>(&num, false);
        // oracle
        let ctlz = mantissa.leading_zeros();
        let m = mantissa << ctlz;
        let e: i64 = 4 * exponent - ctlz as i64 + 63; // exponent of leading bit
        let mut exp_bits: u64; let mut frac: u64; let mut halfway_even = false;
        if e > 1023 { exp_bits = 0x7ff; frac = 0; }
        else {
            let shift: u32 = if e >= -1022 { 11 } else { let s = 11 + (-1022 - e); if s > 64 { 65 } else { s as u32 } };
            if shift >= 65 { exp_bits = 0; frac = 0; }
            else {
                let (kept, rem, half): (u64, u128, u128) = if shift == 64 { (0, m as u128, 1u128 << 63) } else { (m >> shift, (m & ((1u64 << shift) - 1)) as u128, 1u128 << (shift - 1)) };
                let mut k = kept;
                if rem > half || (rem == half && (k & 1) == 1) { k += 1; }
                if rem == half && (kept & 1) == 0 { halfway_even = true; }
                // k has hidden bit at bit 52 for normals
                if e >= -1022 {
                    let mut eb = (e + 1023) as u64;
                    if k >= (1u64 << 53) { k >>= 1; eb += 1; }
                    if eb >= 0x7ff { exp_bits = 0x7ff; frac = 0; } else { exp_bits = eb; frac = k & ((1u64 << 52) - 1); }
                } else {
                    if k >= (1u64 << 52) { exp_bits = 1; frac = k & ((1u64 << 52) - 1); } else { exp_bits = 0; frac = k; }
                }
            }
        }
        let expect = (exp_bits << 52) | frac;
        if fp.exp < 0 {
            assert!(many && halfway_even);
        } else {
            let got: f64 = extended_to_float::<f64>(fp);
            assert!(got.to_bits() == expect);
        }
    }

    // C06: hex write exactness f32 radix 16
    fn dig16(c: u8) -> u32 { if c >= b'0' && c <= b'9' { (c - b'0') as u32 } else if c >= b'A' && c <= b'F' { (c - b'A') as u32 + 10 } else { 99 } }
    #[kani::proof]
    #[kani::unwind(60)]
    fn w16_f32() {
        let bits: u32 = kani::any();
        let f = f32::from_bits(bits);
        kani::assume(f.is_finite() && f > 0.0);
        let opts = lexical_write_float::Options::from_radix(16);
        let mut buf = [0u8; 256];
        let out = lc::write_with_options::<f32, F16>(f, &mut buf, &opts);
        let n = out.len();
        assert!(n >= 3 && n <= 60);
        // decode
        let mut i = 0; let mut mant: u64 = 0; let mut nf: i32 = 0; let mut seen_dot = false; let mut e: i32 = 0;
        while i < n && out[i] != b'^' {
            let c = out[i];
            if c == b'.' { assert!(!seen_dot); seen_dot = true; }
            else { let d = dig16(c); assert!(d < 16); assert!(mant < (1u64 << 56)); mant = mant * 16 + d as u64; if seen_dot { nf += 1; } }
            i += 1;
        }
        if i < n { i += 1; let mut neg = false; if out[i] == b'-' { neg = true; i += 1; } let mut ev: i32 = 0; while i < n { let d = dig16(out[i]); assert!(d < 16); ev = ev * 16 + d as i32; i += 1; } e = if neg { -ev } else { ev }; }
        // float = m * 2^e2
        let eb = (bits >> 23) & 0xff; let fr = (bits & 0x7fffff) as u64;
        let (m, e2): (u64, i32) = if eb == 0 { (fr, -149) } else { (fr | (1 << 23), eb as i32 - 150) };
        let t = e2 - 4 * (e - nf);
        assert!(t > -60 && t < 60);
        if t >= 0 { assert!((mant as u128) == ((m as u128) << t)); } else { assert!(((mant as u128) << (-t)) == m as u128); }
    }
}
