#!/bin/bash
# usage: run.sh harness [timeout_s] [extra cargo kani args...]
h=$1; t=${2:-300}; shift; shift
mkdir -p logs
( ulimit -v 20000000; /usr/bin/time -f "%e s %M KB" timeout $t cargo kani --target-dir /tmp/probe/tgt-$h --harness $h "$@" > logs/$h.log 2>&1; echo "exit=$?" >> logs/$h.log )
echo "$h: $(grep -E 'VERIFICATION|exit=|Verification Time| s [0-9]+ KB' logs/$h.log | tr '\n' ' ')"
