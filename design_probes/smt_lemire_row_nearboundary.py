import re, sys, subprocess, time
from z3 import *
src=open('/repo/lexical-parse-float/src/table_lemire.rs').read()
tab=[(int(a,16),int(b,16)) for a,b in re.findall(r'\(0x([0-9a-f]+), 0x([0-9a-f]+)\),\s*// 5\^',src)]
assert len(tab)==651
SM=-342
MANT=52; MINEXP=-1023; INFP=0x7FF; RTE_MIN=-4; RTE_MAX=23
def power(q): return ((q*(152170+65536))>>16)+63
def build(q, mutate=False):
    W=1100
    w=BitVec('w',64)
    import os
    KB=int(os.environ.get('KB','64'))
    cons=[Extract(63,63,w)==1]
    if KB<64: cons.append(Extract(63-KB,0,w)==0)
    t0,t1=tab[q-SM]   # (lo5 [actually high], hi5)
    if mutate: t0^=1<<7
    def full(a,b):
        r=ZeroExt(64,a)*BitVecVal(b,128)
        return Extract(63,0,r),Extract(127,64,r)
    prec=MANT+3
    mask=(0xFFFFFFFFFFFFFFFF>>prec)
    flo,fhi=full(w,t0)
    _,shi=full(w,t1)
    need=(fhi & mask)==mask
    flo2=flo+shi
    fhi2=If(ULT(flo2,shi),fhi+1,fhi)   # second_hi > first_lo(after add)
    lo=If(need,flo2,flo); hi=If(need,fhi2,fhi)
    inside=(-27<=q<=55)
    err = And(lo==BitVecVal(2**64-1,64), not inside)
    upper=LShR(hi,63)
    ub=Extract(0,0,upper)
    sh0=0+64-MANT-3; sh1=1+64-MANT-3
    mant=If(ub==1,LShR(hi,sh1),LShR(hi,sh0))
    p0=power(q)+0-0-MINEXP; p1=p0+1
    # assume normal range for both
    assert p0>0 and p1+1<INFP, (q,p0)
    tie = And(ULE(lo,1), RTE_MIN<=q<=RTE_MAX, (mant&3)==1, If(ub==1, (mant<<sh1)==hi, (mant<<sh0)==hi))
    mant=If(tie, mant & ~BitVecVal(1,64), mant)
    mant=mant+(mant&1)
    mant=LShR(mant,1)
    carry=UGE(mant,BitVecVal(2<<MANT,64))
    mant=If(carry,BitVecVal(1<<MANT,64),mant)
    # M includes hidden bit; p = (ub? p1:p0) + carry
    M=mant
    # oracle in wide BV
    Mw=ZeroExt(W-64,M); ww=ZeroExt(W-64,w)
    # value = M * 2^(p-1075); p in {p0,p0+1,p0+2}
    # compare 2V with (2M±1)*2^e ;  V = w*5^q*2^q (q>=0) or w/(5^-q 2^-q)
    K=1200 if False else 0
    res=[]
    for dp in (0,1,2):
        e=p0+dp-1075
        if q>=0:
            # A = w*5^q*2^(q+1) ; B± = (2M±1)*2^e ; scale by 2^s to be nonneg
            s=max(0,-(e-2))  # allow the e-2 case
            A=ww*BitVecVal((5**q)<<(q+1+s),W)
            Bp=(2*Mw+1)*BitVecVal(1<<(e+s),W)
            Bm=(2*Mw-1)*BitVecVal(1<<(e+s),W)
            Bm4=(4*Mw-1)*BitVecVal(1<<(e-1+s),W)
        else:
            # 2V = w*2^(1+q)/5^-q ; compare w*2^(1+q) vs (2M±1) 2^e 5^-q ; multiply both by 2^s
            s=max(0,-(1+q), -(e-1))
            A=ww*BitVecVal(1<<(1+q+s),W)
            Bp=(2*Mw+1)*BitVecVal((5**-q)<<(e+s),W)
            Bm=(2*Mw-1)*BitVecVal((5**-q)<<(e+s),W)
            Bm4=(4*Mw-1)*BitVecVal((5**-q)<<(e-1+s),W)
        even=(M&1)==0
        up_ok=Or(ULT(A,Bp),And(A==Bp,even))
        ispow=(M==BitVecVal(1<<MANT,64))
        lo_ok=If(ispow, UGE(A,Bm4), Or(UGT(A,Bm),And(A==Bm,even)))
        res.append(And(up_ok,lo_ok))
    ok=If(ub==1, If(carry,res[2],res[1]), If(carry,res[1],res[0]))
    s=Solver()
    s.add(*cons); s.add(Not(err)); s.add(Not(ok))
    if os.environ.get('NEAR'):
        nb=int(os.environ['NEAR'])
        low=hi & BitVecVal((1<<nb)-1,64)
        s.add(Or(low==0, low==BitVecVal((1<<nb)-1,64)))
    return s
q=int(sys.argv[1]); mut=len(sys.argv)>2 and sys.argv[2]=='mut'
s=build(q,mut)
open(f'lem_{q}.smt2','w').write("(set-logic QF_BV)\n"+s.to_smt2().replace('(set-info :status unknown)',''))
