import sys
# emit SMT-LIB BV query for jeaiii @10 kernel on u32 n in [1e9, 2^32)
L=[]
L.append("(set-logic QF_BV)")
L.append("(declare-const n (_ BitVec 64))")
L.append("(assert (bvuge n (_ bv1000000000 64)))")
L.append("(assert (bvult n (_ bv4294967296 64)))")
L.append("(define-fun y0 () (_ BitVec 64) (bvlshr (bvmul n (_ bv1441151881 64)) (_ bv25 64)))")
prev="y0"
ds=["(bvlshr y0 (_ bv32 64))"]
for i in range(1,5):
    L.append(f"(define-fun y{i} () (_ BitVec 64) (bvmul (bvand {prev} (_ bv4294967295 64)) (_ bv100 64)))")
    ds.append(f"(bvlshr y{i} (_ bv32 64))")
    prev=f"y{i}"
for i,d in enumerate(ds):
    L.append(f"(define-fun d{i} () (_ BitVec 64) {d})")
hor="d0"
for i in range(1,5):
    hor=f"(bvadd (bvmul {hor} (_ bv100 64)) d{i})"
bad = "(or " + " ".join(f"(bvuge d{i} (_ bv100 64))" for i in range(5)) + f" (not (= {hor} n)))"
L.append(f"(assert {bad})")
L.append("(check-sat)")
open("k10.smt2","w").write("\n".join(L)+"\n")
