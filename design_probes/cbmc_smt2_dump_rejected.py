import json,subprocess,sys,glob
h=sys.argv[1]; unwind=sys.argv[2]; out=sys.argv[3]
classes_excl=set(sys.argv[4].split(',')) if len(sys.argv)>4 else {'reachability_check'}
g=glob.glob(f'/tmp/probe/tgt-{h}/kani/x86_64-unknown-linux-gnu/debug/build/probe/*/out/*{h}.out')[0]
base=['cbmc','--no-malloc-may-fail','--no-undefined-shift-check','--no-signed-overflow-check','--nan-check','--no-self-loops-to-assumptions','--no-pointer-primitive-check','--object-bits','16','--unwind',unwind,'--unwinding-assertions',g]
r=subprocess.run(base+['--show-properties','--json-ui'],capture_output=True,text=True)
d=json.loads(r.stdout)
props=[x for x in d if 'properties' in x][0]['properties']
sel=[p['name'] for p in props if p['class'] not in classes_excl]
args=[]
for n in sel: args+=['--property',n]
r=subprocess.run(base+['--slice-formula','--stop-on-fail']+args+['--smt2','--outfile',out],capture_output=True,text=True)
print(r.stdout[-300:], r.stderr[-300:], len(sel),'properties')
